/-
  Constructor expressions in the "safe grammar" build solver-safe models over boolean leaves:
  the invariant `SB` (solver-safe ∧ boolean leaves) is preserved by every constructor that does
  not put a compound under a negative sign, and by `negate` (which pushes inwards).
-/
import Puan.Lemmas.Build
import Puan.Props.C05
namespace Puan
namespace P
open C05

/-- solver-safe and over boolean leaves -/
def SB (p : P) : Prop := Safe p ∧ BoolLeaves p

theorem sb_leaf (i : String) : SB (.leaf i ⟨0, 1⟩) := by simp [SB, Safe, BoolLeaves]

theorem sb_node (i b s v) (ks : List P) (m)
    (hs : s = 1 ∨ (s = -1 ∧ ∀ k ∈ ks, k.isLeaf = true)) (h : ∀ k ∈ ks, SB k) : SB (.node i b s v ks m) := by
  refine ⟨?_, ?_⟩
  · simp only [Safe]; exact ⟨hs, (SafeL_iff ks).2 (fun k hk => (h k hk).1)⟩
  · simp only [BoolLeaves]; exact (BoolLeavesL_iff ks).2 (fun k hk => (h k hk).2)

theorem sb_kids (i b s v) (ks : List P) (m) (h : SB (.node i b s v ks m)) : ∀ k ∈ ks, SB k := by
  obtain ⟨h1, h2⟩ := h
  simp only [Safe] at h1
  simp only [BoolLeaves] at h2
  exact fun k hk => ⟨(SafeL_iff ks).1 h1.2 k hk, (BoolLeavesL_iff ks).1 h2 k hk⟩

theorem boolLeaves_of_leaf_kids (l : List P) (h : ∀ a ∈ l, BoolLeaves a) : BoolLeavesL l := (BoolLeavesL_iff l).2 h

mutual
/-- `negate` keeps every leaf boolean (it only regroups the same leaves) -/
theorem boolLeaves_negate : ∀ p, BoolLeaves p → BoolLeaves (negate p)
  | .leaf i b, h => by simpa [negate] using h
  | .node i b s v ks m, h => by
      have hb : ∀ k ∈ ks, BoolLeaves k := (BoolLeavesL_iff ks).1 (by simpa [BoolLeaves] using h)
      have hsorted : ∀ k ∈ sortById ks, BoolLeaves k := fun k hk => hb k ((sortById_perm ks).mem_iff.1 hk)
      have hatoms : ∀ a ∈ (sortById ks).filter (·.isLeaf), BoolLeaves a := fun a ha => hsorted a (List.mem_filter.1 ha).1
      have hnp := boolLeaves_negPairs ks hb
      have hnegs : ∀ k ∈ (sortPairs (negPairs ks)).map (·.2), BoolLeaves k := by
        intro k hk
        obtain ⟨p, hp, rfl⟩ := List.mem_map.1 hk
        exact hnp p ((List.mergeSort_perm _ _).mem_iff.1 hp)
      have hgrp : ∀ l : List P, (∀ a ∈ l, BoolLeaves a) → BoolLeaves (negGroup l) := fun l hl => by
        simp only [negGroup, BoolLeaves]; exact (BoolLeavesL_iff l).2 hl
      simp only [negate]
      split
      · split
        · simp only [BoolLeaves]; exact (BoolLeavesL_iff _).2 hnegs
        · split
          · simp only [BoolLeaves]
            refine (BoolLeavesL_iff _).2 ?_
            intro k hk
            rcases List.mem_append.1 hk with h' | h'
            · exact hnegs k h'
            · simp at h'; subst h'; exact hgrp _ hatoms
          · split
            · simp only [BoolLeaves]
              refine (BoolLeavesL_iff _).2 ?_
              intro k hk
              rcases List.mem_append.1 hk with h' | h'
              · exact hnegs k h'
              · obtain ⟨a, ha, rfl⟩ := List.mem_map.1 h'
                exact hgrp [a] (by intro x hx; simp at hx; rw [hx]; exact hatoms a ha)
            · simp only [negFlat, BoolLeaves]; exact (BoolLeavesL_iff _).2 hsorted
      · simp only [negFlat, BoolLeaves]; exact (BoolLeavesL_iff _).2 hsorted
theorem boolLeaves_negPairs : ∀ ks : List P, (∀ k ∈ ks, BoolLeaves k) → ∀ p ∈ negPairs ks, BoolLeaves p.2
  | [], _ => by simp [negPairs]
  | .leaf i b :: ks, h => by
      simpa [negPairs] using boolLeaves_negPairs ks (fun k hk => h k (List.mem_cons_of_mem _ hk))
  | .node i b s v ks' m :: ks, h => by
      intro p hp
      simp only [negPairs, List.mem_cons] at hp
      rcases hp with rfl | hp
      · exact boolLeaves_negate _ (h _ (List.mem_cons_self ..))
      · exact boolLeaves_negPairs ks (fun k hk => h k (List.mem_cons_of_mem _ hk)) p hp
end

/-- `negate` preserves `SB` -/
theorem sb_negate (p : P) (h : SB p) : SB (negate p) := ⟨negate_safe p h.1 h.2, boolLeaves_negate p h.2⟩

/-- negating *any* node (also one with compounds under a negative sign) whose children are `SB`
    gives an `SB` model: a positive node is pushed inwards, a negative one becomes positive -/
theorem sb_negate_node (i b s v) (ks : List P) (m) (hs : s = 1 ∨ s = -1) (h : ∀ k ∈ ks, SB k) :
    SB (negate (.node i b s v ks m)) := by
  rcases hs with rfl | rfl
  · exact sb_negate _ (sb_node i b 1 v ks m (Or.inl rfl) h)
  · have hsorted : ∀ k ∈ sortById ks, SB k := fun k hk => h k ((sortById_perm ks).mem_iff.1 hk)
    have : ¬ ((-1 : Int) = 1 ∧ (ks.filter (fun k => !k.isLeaf)).length ≠ 0) := by omega
    simp only [negate, this, if_false, negFlat]
    exact sb_node _ _ _ _ _ _ (Or.inl (by omega)) hsorted

theorem sb_mkAtLeast (v : Int) (ks : List P) (var sgn cls)
    (hs : sgnOf v sgn = 1 ∨ (sgnOf v sgn = -1 ∧ ∀ k ∈ ks, k.isLeaf = true)) (h : ∀ k ∈ ks, SB k) :
    SB (mkAtLeast v ks var sgn cls) := by
  have hsorted : ∀ k ∈ sortById ks, SB k := fun k hk => h k ((sortById_perm ks).mem_iff.1 hk)
  have hs' : sgnOf v sgn = 1 ∨ (sgnOf v sgn = -1 ∧ ∀ k ∈ sortById ks, k.isLeaf = true) := by
    rcases hs with h1 | ⟨h1, h2⟩
    · exact Or.inl h1
    · exact Or.inr ⟨h1, fun k hk => h2 k ((sortById_perm ks).mem_iff.1 hk)⟩
  unfold sgnOf at hs'
  unfold mkAtLeast
  cases var with
  | none => exact sb_node _ _ _ _ _ _ hs' hsorted
  | some x => exact sb_node _ _ _ _ _ _ hs' hsorted

theorem sb_negate_mkAtLeast (v : Int) (ks : List P) (var sgn cls)
    (hs : sgnOf v sgn = 1 ∨ sgnOf v sgn = -1) (h : ∀ k ∈ ks, SB k) :
    SB (negate (mkAtLeast v ks var sgn cls)) := by
  have hsorted : ∀ k ∈ sortById ks, SB k := fun k hk => h k ((sortById_perm ks).mem_iff.1 hk)
  unfold sgnOf at hs
  unfold mkAtLeast
  cases var with
  | none => exact sb_negate_node _ _ _ _ _ _ hs hsorted
  | some x => exact sb_negate_node _ _ _ _ _ _ hs hsorted

theorem sb_setCond (p : P) (cid : String) (h : SB p) : SB (setCond p cid) := by
  cases p with
  | leaf => simpa [setCond] using h
  | node i b s v ks m => simpa [setCond, SB, Safe, BoolLeaves] using h

theorem mem_orderArgs (l : List (Bool × P)) (k : P) (hk : k ∈ orderArgs l) : ∃ x ∈ l, x.2 = k := by
  unfold orderArgs at hk
  rcases List.mem_append.1 hk with h | h
  · obtain ⟨x, hx, rfl⟩ := List.mem_map.1 h; exact ⟨x, (List.mem_filter.1 hx).1, rfl⟩
  · obtain ⟨x, hx, rfl⟩ := List.mem_map.1 h; exact ⟨x, (List.mem_filter.1 hx).1, rfl⟩

theorem sb_orderArgs (l : List (Bool × P)) (h : ∀ x ∈ l, SB x.2) : ∀ k ∈ orderArgs l, SB k := by
  intro k hk; obtain ⟨x, hx, rfl⟩ := mem_orderArgs l k hk; exact h x hx

theorem leaf_orderArgs (l : List (Bool × P)) (h : ∀ x ∈ l, x.2.isLeaf = true) : ∀ k ∈ orderArgs l, k.isLeaf = true := by
  intro k hk; obtain ⟨x, hx, rfl⟩ := mem_orderArgs l k hk; exact h x hx

theorem sb_mkAll (args : List (Bool × P)) (oid cls) (h : ∀ x ∈ args, SB x.2) : SB (mkAll args oid cls) := by
  unfold mkAll
  refine sb_mkAtLeast _ _ _ _ _ ?_ (sb_orderArgs args h)
  by_cases hp : (distinctCount args : Int) > 0
  · exact Or.inl (by simp only [sgnOf, Option.getD_none, hp, if_true])
  · -- no arguments at all: the sign rule gives −1 over an empty child list
    have h0 : distinctCount args = 0 := by omega
    have hnil : args = [] := by
      cases args with
      | nil => rfl
      | cons x r =>
          exfalso
          -- the last distinct element always counts
          have : ∀ l : List (Bool × P), l ≠ [] → distinctCount l ≠ 0 := by
            intro l
            induction l with
            | nil => intro h; exact absurd rfl h
            | cons y r ih =>
                intro _
                simp only [distinctCount]
                by_cases hr : r = []
                · subst hr; simp [distinctCount]
                · have := ih hr; omega
          exact this (x :: r) (by simp) h0
    subst hnil
    exact Or.inr ⟨by simp [sgnOf, distinctCount], by simp [orderArgs]⟩

theorem sb_mkAny (args : List (Bool × P)) (oid cls) (h : ∀ x ∈ args, SB x.2) : SB (mkAny args oid cls) := by
  unfold mkAny
  exact sb_mkAtLeast _ _ _ _ _ (Or.inl (by simp [sgnOf])) (sb_orderArgs args h)

theorem sb_mkAtMost (v : Int) (ks : List P) (var) (hl : ∀ k ∈ ks, k.isLeaf = true) (h : ∀ k ∈ ks, SB k) :
    SB (mkAtMost v ks var) := by
  unfold mkAtMost
  exact sb_mkAtLeast _ _ _ _ _ (Or.inr ⟨by simp [sgnOf], hl⟩) h

theorem sb_mkXor (args : List (Bool × P)) (oid cls) (hl : ∀ x ∈ args, x.2.isLeaf = true) (h : ∀ x ∈ args, SB x.2) :
    SB (mkXor args oid cls) := by
  unfold mkXor
  apply sb_mkAll
  intro x hx
  simp only [List.mem_cons, List.not_mem_nil, or_false] at hx
  rcases hx with rfl | rfl
  · exact sb_mkAtLeast 1 _ none none _ (Or.inl (by simp [sgnOf])) (sb_orderArgs args h)
  · exact sb_mkAtMost 1 _ none (leaf_orderArgs args hl) (sb_orderArgs args h)

theorem sb_mkXNor (args : List (Bool × P)) (oid) (h : ∀ x ∈ args, SB x.2) : SB (mkXNor args oid) := by
  unfold mkXNor
  apply sb_setCond
  apply sb_mkAny
  intro x hx
  simp only [List.mem_cons, List.not_mem_nil, or_false] at hx
  rcases hx with rfl | rfl
  · exact sb_negate_mkAtLeast 1 _ none none _ (Or.inl (by simp [sgnOf])) (sb_orderArgs args h)
  · show SB (negate (mkAtMost 1 (orderArgs args) none))
    unfold mkAtMost
    exact sb_negate_mkAtLeast (-1) _ none (some (-1)) _ (Or.inr (by simp [sgnOf])) (sb_orderArgs args h)

theorem sb_mkNot (isAtom : Bool) (a : Bool × P) (h : SB a.2) : SB (mkNot isAtom a) := by
  unfold mkNot
  split
  · exact sb_negate _ (sb_mkAll [a] none .all (by intro x hx; simp at hx; rw [hx]; exact h))
  · exact sb_negate _ h

theorem sb_mkImply (cAtom : Bool) (c d : Bool × P) (oid) (hc : SB c.2) (hd : SB d.2) : SB (mkImply cAtom c d oid) := by
  unfold mkImply
  apply sb_setCond
  apply sb_mkAny
  intro x hx
  simp only [List.mem_cons, List.not_mem_nil, or_false] at hx
  rcases hx with rfl | rfl
  · exact sb_mkNot cAtom c hc
  · exact hd

end P

namespace Ast
open P

mutual
/-- the safe grammar: boolean variables; `All`, `Any`, `XNor`, `Imply`, `Not`, `StingyConfigurator` and positively
    signed `AtLeast` over safe arguments; negatively signed `AtLeast`, `AtMost`, `Xor`/`ExactlyOne` over variables only -/
def SafeExpr : Ast → Prop
  | .var _ b => b.lo = 0 ∧ b.hi = 1
  | .str _ => True
  | .atLeast v as _ sgn => SafeExprL as ∧ (sgnOf v sgn = 1 ∨ (sgnOf v sgn = -1 ∧ AtomsL as))
  | .atMost _ as _ => SafeExprL as ∧ AtomsL as
  | .all as _ => SafeExprL as
  | .any as _ => SafeExprL as
  | .xor as _ _ => SafeExprL as ∧ AtomsL as
  | .xnor as _ => SafeExprL as
  | .imply c d _ => SafeExpr c ∧ SafeExpr d
  | .not a => SafeExpr a
  | .ccAny .. => False
  | .ccXor .. => False
  | .stingy as _ => SafeExprL as
def SafeExprL : List Ast → Prop
  | [] => True
  | a :: as => SafeExpr a ∧ SafeExprL as
def AtomsL : List Ast → Prop
  | [] => True
  | a :: as => a.isAtom = true ∧ AtomsL as
end

theorem build_atom_isLeaf (a : Ast) (h : a.isAtom = true) : (build a).isLeaf = true := by
  cases a <;> simp [isAtom] at h <;> simp [build, P.isLeaf]

theorem buildL_atoms : ∀ as : List Ast, AtomsL as → ∀ x ∈ buildL as, x.2.isLeaf = true
  | [], _ => by simp [buildL]
  | a :: as, h => by
      have ⟨h1, h2⟩ : a.isAtom = true ∧ AtomsL as := by simpa [AtomsL] using h
      intro x hx
      simp only [buildL, List.mem_cons] at hx
      rcases hx with rfl | hx
      · exact build_atom_isLeaf a h1
      · exact buildL_atoms as h2 x hx

mutual
/-- every expression of the safe grammar builds a solver-safe model over boolean leaves -/
theorem build_sb : ∀ a : Ast, SafeExpr a → SB (build a)
  | .var i b, h => by
      have ⟨h1, h2⟩ : b.lo = 0 ∧ b.hi = 1 := by simpa [SafeExpr] using h
      simp [build, SB, Safe, C05.BoolLeaves, h1, h2]
  | .str i, _ => by simpa [build] using sb_leaf i
  | .atLeast v as oid sgn, h => by
      have ⟨h1, h2⟩ : SafeExprL as ∧ (sgnOf v sgn = 1 ∨ (sgnOf v sgn = -1 ∧ AtomsL as)) := by simpa [SafeExpr] using h
      simp only [build]
      refine sb_mkAtLeast _ _ _ _ _ ?_ (sb_orderArgs _ (buildL_sb as h1))
      rcases h2 with h2 | ⟨h2, h3⟩
      · exact Or.inl h2
      · exact Or.inr ⟨h2, leaf_orderArgs _ (buildL_atoms as h3)⟩
  | .atMost v as oid, h => by
      have ⟨h1, h2⟩ : SafeExprL as ∧ AtomsL as := by simpa [SafeExpr] using h
      simp only [build]
      exact sb_mkAtMost _ _ _ (leaf_orderArgs _ (buildL_atoms as h2)) (sb_orderArgs _ (buildL_sb as h1))
  | .all as oid, h => by
      simp only [build]; exact sb_mkAll _ _ _ (buildL_sb as (by simpa [SafeExpr] using h))
  | .any as oid, h => by
      simp only [build]; exact sb_mkAny _ _ _ (buildL_sb as (by simpa [SafeExpr] using h))
  | .xor as oid e, h => by
      have ⟨h1, h2⟩ : SafeExprL as ∧ AtomsL as := by simpa [SafeExpr] using h
      simp only [build]; exact sb_mkXor _ _ _ (buildL_atoms as h2) (buildL_sb as h1)
  | .xnor as oid, h => by
      simp only [build]; exact sb_mkXNor _ _ (buildL_sb as (by simpa [SafeExpr] using h))
  | .imply c d oid, h => by
      have ⟨h1, h2⟩ : SafeExpr c ∧ SafeExpr d := by simpa [SafeExpr] using h
      simp only [build]; exact sb_mkImply _ _ _ _ (build_sb c h1) (build_sb d h2)
  | .not a, h => by
      simp only [build]; exact sb_mkNot _ _ (build_sb a (by simpa [SafeExpr] using h))
  | .ccAny .., h => by simp [SafeExpr] at h
  | .ccXor .., h => by simp [SafeExpr] at h
  | .stingy as oid, h => by
      simp only [build]; exact sb_mkAll _ _ _ (buildL_sb as (by simpa [SafeExpr] using h))
theorem buildL_sb : ∀ as : List Ast, SafeExprL as → ∀ x ∈ buildL as, SB x.2
  | [], _ => by simp [buildL]
  | a :: as, h => by
      have ⟨h1, h2⟩ : SafeExpr a ∧ SafeExprL as := by simpa [SafeExprL] using h
      intro x hx
      simp only [buildL, List.mem_cons] at hx
      rcases hx with rfl | hx
      · exact build_sb a h1
      · exact buildL_sb as h2 x hx
end

end Ast
/-! ### no sub-proposition of a built model is pre-fixed: every compound's own bounds are (0,1) -/

namespace P

theorem Free01L_iff : ∀ ks : List P, Free01L ks ↔ ∀ k ∈ ks, Free01 k
  | [] => by simp [Free01L]
  | k :: ks => by simp [Free01L, Free01L_iff ks]

theorem free01_node (i) (b : Bnd) (s v) (ks : List P) (m) (hb : b.lo = 0 ∧ b.hi = 1) (h : ∀ k ∈ ks, Free01 k) :
    Free01 (.node i b s v ks m) := by
  simp only [Free01]; exact ⟨hb, (Free01L_iff ks).2 h⟩

theorem free01_kids (i b s v) (ks : List P) (m) (h : Free01 (.node i b s v ks m)) :
    (b.lo = 0 ∧ b.hi = 1) ∧ ∀ k ∈ ks, Free01 k := by
  simp only [Free01] at h; exact ⟨h.1, (Free01L_iff ks).1 h.2⟩

mutual
theorem free01_negate : ∀ p, Free01 p → Free01 (negate p)
  | .leaf i b, _ => by simp [negate, Free01]
  | .node i b s v ks m, h => by
      have ⟨hb, hk⟩ := free01_kids i b s v ks m h
      have hsorted : ∀ k ∈ sortById ks, Free01 k := fun k hk' => hk k ((sortById_perm ks).mem_iff.1 hk')
      have hnp := free01_negPairs ks hk
      have hnegs : ∀ k ∈ (sortPairs (negPairs ks)).map (·.2), Free01 k := by
        intro k hk'
        obtain ⟨p, hp, rfl⟩ := List.mem_map.1 hk'
        exact hnp p ((List.mergeSort_perm _ _).mem_iff.1 hp)
      have hgrp : ∀ l : List P, (∀ a ∈ l, a.isLeaf = true) → Free01 (negGroup l) := fun l hl => by
        apply free01_node _ _ _ _ _ _ ⟨rfl, rfl⟩
        intro a ha; have := hl a ha
        cases a with
        | leaf => simp [Free01]
        | node => simp [isLeaf] at this
      have hatoms : ∀ a ∈ (sortById ks).filter (·.isLeaf), a.isLeaf = true := fun a ha => (List.mem_filter.1 ha).2
      have hnb : (if m.gen then (⟨0, 1⟩ : Bnd) else if b.lo = b.hi then ⟨1 - b.hi, 1 - b.lo⟩ else b).lo = 0 ∧
          (if m.gen then (⟨0, 1⟩ : Bnd) else if b.lo = b.hi then ⟨1 - b.hi, 1 - b.lo⟩ else b).hi = 1 := by
        have hne : ¬ b.lo = b.hi := by omega
        split
        · simp
        · simp [hne, hb]
      simp only [negate]
      split
      · split
        · exact free01_node _ _ _ _ _ _ hnb hnegs
        · split
          · apply free01_node _ _ _ _ _ _ hnb
            intro k hk'
            rcases List.mem_append.1 hk' with h' | h'
            · exact hnegs k h'
            · simp at h'; subst h'; exact hgrp _ hatoms
          · split
            · apply free01_node _ _ _ _ _ _ hnb
              intro k hk'
              rcases List.mem_append.1 hk' with h' | h'
              · exact hnegs k h'
              · obtain ⟨a, ha, rfl⟩ := List.mem_map.1 h'
                exact hgrp [a] (by intro x hx; simp at hx; rw [hx]; exact hatoms a ha)
            · exact free01_node _ _ _ _ _ _ hnb hsorted
      · exact free01_node _ _ _ _ _ _ hnb hsorted
theorem free01_negPairs : ∀ ks : List P, (∀ k ∈ ks, Free01 k) → ∀ p ∈ negPairs ks, Free01 p.2
  | [], _ => by simp [negPairs]
  | .leaf i b :: ks, h => by
      simpa [negPairs] using free01_negPairs ks (fun k hk => h k (List.mem_cons_of_mem _ hk))
  | .node i b s v ks' m :: ks, h => by
      intro p hp
      simp only [negPairs, List.mem_cons] at hp
      rcases hp with rfl | hp
      · exact free01_negate _ (h _ (List.mem_cons_self ..))
      · exact free01_negPairs ks (fun k hk => h k (List.mem_cons_of_mem _ hk)) p hp
end

theorem free01_mkAtLeast (v : Int) (ks : List P) (oid : Option String) (sgn cls) (h : ∀ k ∈ ks, Free01 k) :
    Free01 (mkAtLeast v ks (varOf oid) sgn cls) := by
  have hsorted : ∀ k ∈ sortById ks, Free01 k := fun k hk => h k ((sortById_perm ks).mem_iff.1 hk)
  unfold mkAtLeast varOf
  cases oid with
  | none => exact free01_node _ _ _ _ _ _ ⟨rfl, rfl⟩ hsorted
  | some i => exact free01_node _ _ _ _ _ _ ⟨rfl, rfl⟩ hsorted

theorem free01_mkAtLeast_none (v : Int) (ks : List P) (sgn cls) (h : ∀ k ∈ ks, Free01 k) :
    Free01 (mkAtLeast v ks none sgn cls) := free01_mkAtLeast v ks none sgn cls h

theorem free01_orderArgs (l : List (Bool × P)) (h : ∀ x ∈ l, Free01 x.2) : ∀ k ∈ orderArgs l, Free01 k := by
  intro k hk; obtain ⟨x, hx, rfl⟩ := mem_orderArgs l k hk; exact h x hx

theorem free01_setCond (p : P) (cid : String) (h : Free01 p) : Free01 (setCond p cid) := by
  cases p with
  | leaf => simp [setCond, Free01]
  | node i b s v ks m => simpa [setCond, Free01] using h

theorem free01_mkAll (args : List (Bool × P)) (oid cls) (h : ∀ x ∈ args, Free01 x.2) : Free01 (mkAll args oid cls) := by
  unfold mkAll; exact free01_mkAtLeast _ _ _ _ _ (free01_orderArgs args h)

theorem free01_mkAny (args : List (Bool × P)) (oid cls) (h : ∀ x ∈ args, Free01 x.2) : Free01 (mkAny args oid cls) := by
  unfold mkAny; exact free01_mkAtLeast _ _ _ _ _ (free01_orderArgs args h)

theorem free01_mkXor (args : List (Bool × P)) (oid cls) (h : ∀ x ∈ args, Free01 x.2) : Free01 (mkXor args oid cls) := by
  unfold mkXor
  apply free01_mkAll
  intro x hx
  simp only [List.mem_cons, List.not_mem_nil, or_false] at hx
  rcases hx with rfl | rfl
  · exact free01_mkAtLeast_none 1 _ none _ (free01_orderArgs args h)
  · show Free01 (mkAtMost 1 (orderArgs args) none)
    unfold mkAtMost; exact free01_mkAtLeast_none _ _ _ _ (free01_orderArgs args h)

theorem free01_mkXNor (args : List (Bool × P)) (oid) (h : ∀ x ∈ args, Free01 x.2) : Free01 (mkXNor args oid) := by
  unfold mkXNor
  apply free01_setCond
  apply free01_mkAny
  intro x hx
  simp only [List.mem_cons, List.not_mem_nil, or_false] at hx
  rcases hx with rfl | rfl
  · exact free01_negate _ (free01_mkAtLeast_none 1 _ none _ (free01_orderArgs args h))
  · show Free01 (negate (mkAtMost 1 (orderArgs args) none))
    unfold mkAtMost; exact free01_negate _ (free01_mkAtLeast_none _ _ _ _ (free01_orderArgs args h))

theorem free01_mkNot (isAtom : Bool) (a : Bool × P) (h : Free01 a.2) : Free01 (mkNot isAtom a) := by
  unfold mkNot
  split
  · exact free01_negate _ (free01_mkAll [a] none .all (by intro x hx; simp at hx; rw [hx]; exact h))
  · exact free01_negate _ h

theorem free01_mkImply (cAtom : Bool) (c d : Bool × P) (oid) (hc : Free01 c.2) (hd : Free01 d.2) :
    Free01 (mkImply cAtom c d oid) := by
  unfold mkImply
  apply free01_setCond
  apply free01_mkAny
  intro x hx
  simp only [List.mem_cons, List.not_mem_nil, or_false] at hx
  rcases hx with rfl | rfl
  · exact free01_mkNot cAtom c hc
  · exact hd

end P

namespace Ast
open P

mutual
/-- no sub-proposition of a model built from the safe grammar is pre-fixed -/
theorem build_free01 : ∀ a : Ast, SafeExpr a → Free01 (build a)
  | .var i b, _ => by simp [build, Free01]
  | .str i, _ => by simp [build, Free01]
  | .atLeast v as oid sgn, h => by
      have h1 : SafeExprL as := (by simpa [SafeExpr] using h : SafeExprL as ∧ _).1
      simp only [build]; exact free01_mkAtLeast _ _ _ _ _ (free01_orderArgs _ (buildL_free01 as h1))
  | .atMost v as oid, h => by
      have h1 : SafeExprL as := (by simpa [SafeExpr] using h : SafeExprL as ∧ _).1
      simp only [build, mkAtMost]; exact free01_mkAtLeast _ _ _ _ _ (free01_orderArgs _ (buildL_free01 as h1))
  | .all as oid, h => by
      simp only [build]; exact free01_mkAll _ _ _ (buildL_free01 as (by simpa [SafeExpr] using h))
  | .any as oid, h => by
      simp only [build]; exact free01_mkAny _ _ _ (buildL_free01 as (by simpa [SafeExpr] using h))
  | .xor as oid e, h => by
      have h1 : SafeExprL as := (by simpa [SafeExpr] using h : SafeExprL as ∧ _).1
      simp only [build]; exact free01_mkXor _ _ _ (buildL_free01 as h1)
  | .xnor as oid, h => by
      simp only [build]; exact free01_mkXNor _ _ (buildL_free01 as (by simpa [SafeExpr] using h))
  | .imply c d oid, h => by
      have ⟨h1, h2⟩ : SafeExpr c ∧ SafeExpr d := by simpa [SafeExpr] using h
      simp only [build]; exact free01_mkImply _ _ _ _ (build_free01 c h1) (build_free01 d h2)
  | .not a, h => by
      simp only [build]; exact free01_mkNot _ _ (build_free01 a (by simpa [SafeExpr] using h))
  | .ccAny .., h => by simp [SafeExpr] at h
  | .ccXor .., h => by simp [SafeExpr] at h
  | .stingy as oid, h => by
      simp only [build]; exact free01_mkAll _ _ _ (buildL_free01 as (by simpa [SafeExpr] using h))
theorem buildL_free01 : ∀ as : List Ast, SafeExprL as → ∀ x ∈ buildL as, Free01 x.2
  | [], _ => by simp [buildL]
  | a :: as, h => by
      have ⟨h1, h2⟩ : SafeExpr a ∧ SafeExprL as := by simpa [SafeExprL] using h
      intro x hx
      simp only [buildL, List.mem_cons] at hx
      rcases hx with rfl | hx
      · exact build_free01 a h1
      · exact buildL_free01 as h2 x hx
end

end Ast

end Puan
