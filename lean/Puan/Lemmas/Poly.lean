/-
  Helper lemmas for integer polyhedra: row values lie between the row bounds (and attain
  them), single-row propagation is sound.
-/
import Puan.Model.Poly
namespace Puan
namespace Poly

/-- the point lies in the variable box (and has one entry per column) -/
def InBox : List Int → List Bnd → Prop
  | x :: xs, b :: bs => (b.lo ≤ x ∧ x ≤ b.hi) ∧ InBox xs bs
  | [], [] => True
  | _, _ => False

/-- in-box integer solutions -/
def Sol (p : Poly) (xs : List Int) : Prop := InBox xs p.bnds ∧ ∀ r ∈ p.rows, rowSat r xs

def WfB : List Bnd → Prop
  | [] => True
  | b :: bs => b.lo ≤ b.hi ∧ WfB bs

theorem inBox_wf : ∀ (xs : List Int) (bs : List Bnd), InBox xs bs → WfB bs
  | [], [], _ => trivial
  | [], _ :: _, h => by simp [InBox] at h
  | _ :: _, [], h => by simp [InBox] at h
  | x :: xs, b :: bs, h => by
      have ⟨h1, h2⟩ : (b.lo ≤ x ∧ x ≤ b.hi) ∧ InBox xs bs := by simpa [InBox] using h
      exact ⟨by omega, inBox_wf xs bs h2⟩

theorem inBox_length : ∀ (xs : List Int) (bs : List Bnd), InBox xs bs → xs.length = bs.length
  | [], [], _ => rfl
  | [], _ :: _, h => by simp [InBox] at h
  | _ :: _, [], h => by simp [InBox] at h
  | x :: xs, b :: bs, h => by
      have ⟨_, h2⟩ : (b.lo ≤ x ∧ x ≤ b.hi) ∧ InBox xs bs := by simpa [InBox] using h
      simp [inBox_length xs bs h2]

theorem term_bounds (c : Int) (b : Bnd) (x : Int) (h1 : b.lo ≤ x) (h2 : x ≤ b.hi) :
    emin c b ≤ c * x ∧ c * x ≤ emax c b := by
  unfold emin emax
  by_cases hc : c ≥ 0
  · have a1 : b.lo * c ≤ c * x := by rw [Int.mul_comm b.lo]; exact Int.mul_le_mul_of_nonneg_left h1 hc
    have a2 : c * x ≤ b.hi * c := by rw [Int.mul_comm b.hi]; exact Int.mul_le_mul_of_nonneg_left h2 hc
    omega
  · have hc' : c ≤ 0 := by omega
    have a1 : b.hi * c ≤ c * x := by rw [Int.mul_comm b.hi]; exact Int.mul_le_mul_of_nonpos_left hc' h2
    have a2 : c * x ≤ b.lo * c := by rw [Int.mul_comm b.lo]; exact Int.mul_le_mul_of_nonpos_left hc' h1
    omega

/-- for a non-empty interval, `A_min`/`A_max` entries are the entrywise min/max -/
theorem tmin_eq_emin (c : Int) (b : Bnd) (h : b.lo ≤ b.hi) : tmin c b = emin c b := by
  unfold tmin emin
  have t := term_bounds c b b.lo (Int.le_refl _) h
  have t' := term_bounds c b b.hi h (Int.le_refl _)
  unfold emin emax at t t'
  rw [Int.mul_comm c b.lo] at t
  rw [Int.mul_comm c b.hi] at t'
  split
  · rename_i hc
    have : b.lo * c ≤ b.hi * c := Int.mul_le_mul_of_nonneg_right h (by omega)
    omega
  · split
    · rename_i hc
      have : b.hi * c ≤ b.lo * c := Int.mul_le_mul_of_nonpos_right h (by omega)
      omega
    · have : c = 0 := by omega
      subst this; simp
theorem tmax_eq_emax (c : Int) (b : Bnd) (h : b.lo ≤ b.hi) : tmax c b = emax c b := by
  unfold tmax emax
  split
  · rename_i hc
    have : b.lo * c ≤ b.hi * c := Int.mul_le_mul_of_nonneg_right h (by omega)
    omega
  · split
    · rename_i hc
      have : b.hi * c ≤ b.lo * c := Int.mul_le_mul_of_nonpos_right h (by omega)
      omega
    · have : c = 0 := by omega
      subst this; simp

theorem sumMin_eq_rbLo : ∀ (cs : List Int) (bs : List Bnd), WfB bs → sumMin cs bs = rbLo cs bs
  | [], _, _ => by simp [sumMin, rbLo]
  | _ :: _, [], _ => by simp [sumMin, rbLo]
  | c :: cs, b :: bs, h => by
      simp only [sumMin, rbLo, tmin_eq_emin c b h.1, sumMin_eq_rbLo cs bs h.2]

/-- every row value lies between the reported row bounds -/
theorem dot_bounds : ∀ (cs xs : List Int) (bs : List Bnd), InBox xs bs →
    rbLo cs bs ≤ dot cs xs ∧ dot cs xs ≤ rbHi cs bs
  | [], _, _, _ => by simp [dot, rbLo, rbHi]
  | c :: cs, [], [], _ => by simp [dot, rbLo, rbHi]
  | _ :: _, [], _ :: _, h => by simp [InBox] at h
  | _ :: _, _ :: _, [], h => by simp [InBox] at h
  | c :: cs, x :: xs, b :: bs, h => by
      have ⟨h1, h2⟩ : (b.lo ≤ x ∧ x ≤ b.hi) ∧ InBox xs bs := by simpa [InBox] using h
      have ih := dot_bounds cs xs bs h2
      have tb := term_bounds c b x h1.1 h1.2
      simp only [dot, rbLo, rbHi]; omega

/-- a point attaining the lower / upper row bound -/
def argLo : List Int → List Bnd → List Int
  | c :: cs, b :: bs => (if b.lo * c ≤ b.hi * c then b.lo else b.hi) :: argLo cs bs
  | [], b :: bs => b.lo :: argLo [] bs
  | _, [] => []
def argHi : List Int → List Bnd → List Int
  | c :: cs, b :: bs => (if b.lo * c ≤ b.hi * c then b.hi else b.lo) :: argHi cs bs
  | [], b :: bs => b.lo :: argHi [] bs
  | _, [] => []

theorem argLo_spec : ∀ (cs : List Int) (bs : List Bnd), WfB bs →
    InBox (argLo cs bs) bs ∧ dot cs (argLo cs bs) = rbLo cs bs
  | [], [], _ => by simp [argLo, InBox, dot, rbLo]
  | _ :: _, [], _ => by simp [argLo, InBox, dot, rbLo]
  | [], b :: bs, h => by
      have ih := argLo_spec [] bs h.2
      refine ⟨?_, by simp [dot, rbLo]⟩
      simp only [argLo, InBox]; exact ⟨⟨Int.le_refl _, h.1⟩, ih.1⟩
  | c :: cs, b :: bs, h => by
      have ih := argLo_spec cs bs h.2
      have hw := h.1
      constructor
      · simp only [argLo, InBox]; refine ⟨?_, ih.1⟩; split <;> omega
      · simp only [argLo, dot, rbLo, emin, ih.2]
        split
        · rename_i hle; rw [Int.mul_comm c b.lo]; omega
        · rename_i hle; rw [Int.mul_comm c b.hi]; omega
theorem argHi_spec : ∀ (cs : List Int) (bs : List Bnd), WfB bs →
    InBox (argHi cs bs) bs ∧ dot cs (argHi cs bs) = rbHi cs bs
  | [], [], _ => by simp [argHi, InBox, dot, rbHi]
  | _ :: _, [], _ => by simp [argHi, InBox, dot, rbHi]
  | [], b :: bs, h => by
      have ih := argHi_spec [] bs h.2
      refine ⟨?_, by simp [dot, rbHi]⟩
      simp only [argHi, InBox]; exact ⟨⟨Int.le_refl _, h.1⟩, ih.1⟩
  | c :: cs, b :: bs, h => by
      have ih := argHi_spec cs bs h.2
      have hw := h.1
      constructor
      · simp only [argHi, InBox]; refine ⟨?_, ih.1⟩; split <;> omega
      · simp only [argHi, dot, rbHi, emax, ih.2]
        split
        · rename_i hle; rw [Int.mul_comm c b.hi]; omega
        · rename_i hle; rw [Int.mul_comm c b.lo]; omega

/-- replacing every term but the j-th by its maximum bounds the row value from above -/
theorem dot_le_except : ∀ (cs xs : List Int) (bs : List Bnd) (j : Nat) (c x : Int) (b : Bnd),
    InBox xs bs → cs[j]? = some c → xs[j]? = some x → bs[j]? = some b →
    dot cs xs ≤ rbHi cs bs - emax c b + c * x
  | [], _, _, _, _, _, _, _, h, _, _ => by simp at h
  | _ :: _, [], _, _, _, _, _, _, _, h, _ => by simp at h
  | _ :: _, _ :: _, [], _, _, _, _, _, _, _, h => by simp at h
  | d :: cs, y :: xs, e :: bs, 0, c, x, b, hb, h1, h2, h3 => by
      simp at h1 h2 h3; subst h1; subst h2; subst h3
      have ⟨_, hb2⟩ : (e.lo ≤ y ∧ y ≤ e.hi) ∧ InBox xs bs := by simpa [InBox] using hb
      have := (dot_bounds cs xs bs hb2).2
      simp only [dot, rbHi]; omega
  | d :: cs, y :: xs, e :: bs, j+1, c, x, b, hb, h1, h2, h3 => by
      simp at h1 h2 h3
      have ⟨hb1, hb2⟩ : (e.lo ≤ y ∧ y ≤ e.hi) ∧ InBox xs bs := by simpa [InBox] using hb
      have ih := dot_le_except cs xs bs j c x b hb2 h1 h2 h3
      have tb := term_bounds d e y hb1.1 hb1.2
      simp only [dot, rbHi]; omega

theorem inBox_get : ∀ (xs : List Int) (bs : List Bnd) (j : Nat) (x : Int) (b : Bnd),
    InBox xs bs → xs[j]? = some x → bs[j]? = some b → b.lo ≤ x ∧ x ≤ b.hi
  | [], _, _, _, _, _, h, _ => by simp at h
  | _ :: _, [], _, _, _, h, _, _ => by simp [InBox] at h
  | y :: xs, e :: bs, 0, x, b, hb, h1, h2 => by
      simp at h1 h2; subst h1; subst h2
      have ⟨hb1, _⟩ : (e.lo ≤ y ∧ y ≤ e.hi) ∧ InBox xs bs := by simpa [InBox] using hb
      exact hb1
  | y :: xs, e :: bs, j+1, x, b, hb, h1, h2 => by
      simp at h1 h2
      have ⟨_, hb2⟩ : (e.lo ≤ y ∧ y ≤ e.hi) ∧ InBox xs bs := by simpa [InBox] using hb
      exact inBox_get xs bs j x b hb2 h1 h2

/-- single-row propagation, positive coefficient: a lower bound on the column -/
theorem slackQ_lb (row : PRow) (xs : List Int) (bs : List Bnd) (j : Nat) (c x : Int) (b : Bnd)
    (hb : InBox xs bs) (hc : row.cs[j]? = some c) (hx : xs[j]? = some x) (hbj : bs[j]? = some b)
    (hpos : 0 < c) (hsat : rowSat row xs) : slackQ row bs c b ≤ x := by
  have h := dot_le_except row.cs xs bs j c x b hb hc hx hbj
  have hw := inBox_get xs bs j x b hb hx hbj
  have he := tmax_eq_emax c b (by omega)
  unfold rowSat at hsat
  have hr : row.b - (rbHi row.cs bs - tmax c b) ≤ c * x := by omega
  unfold slackQ floorDiv; simp only [hpos, if_true]
  have h1 : (row.b - (rbHi row.cs bs - tmax c b)) / c ≤ (c * x) / c := Int.ediv_le_ediv hpos hr
  rwa [Int.mul_ediv_cancel_left _ (by omega)] at h1

/-- single-row propagation, negative coefficient: an upper bound on the column -/
theorem slackQ_ub (row : PRow) (xs : List Int) (bs : List Bnd) (j : Nat) (c x : Int) (b : Bnd)
    (hb : InBox xs bs) (hc : row.cs[j]? = some c) (hx : xs[j]? = some x) (hbj : bs[j]? = some b)
    (hneg : c < 0) (hsat : rowSat row xs) : x ≤ slackQ row bs c b := by
  have h := dot_le_except row.cs xs bs j c x b hb hc hx hbj
  have hw := inBox_get xs bs j x b hb hx hbj
  have he := tmax_eq_emax c b (by omega)
  unfold rowSat at hsat
  have hr : row.b - (rbHi row.cs bs - tmax c b) ≤ c * x := by omega
  unfold slackQ floorDiv
  have hn : ¬ c > 0 := by omega
  simp only [hn, if_false]
  have hpos : 0 < -c := by omega
  have h2 : x * (-c) ≤ -(row.b - (rbHi row.cs bs - tmax c b)) := by
    have : c * x = -(x * (-c)) := by rw [Int.mul_neg, Int.neg_neg, Int.mul_comm]
    omega
  exact (Int.le_ediv_iff_mul_le hpos).2 h2

theorem maxL_le (d x : Int) : ∀ l : List Int, d ≤ x → (∀ c ∈ l, c ≤ x) → maxL d l ≤ x
  | [], hd, _ => by simpa [maxL] using hd
  | c :: l, hd, h => by
      have := maxL_le d x l hd (fun c' hc' => h c' (by simp [hc']))
      have := h c (by simp)
      simp only [maxL]; omega
theorem le_minL (d x : Int) : ∀ l : List Int, x ≤ d → (∀ c ∈ l, x ≤ c) → x ≤ minL d l
  | [], hd, _ => by simpa [minL] using hd
  | c :: l, hd, h => by
      have := le_minL d x l hd (fun c' hc' => h c' (by simp [hc']))
      have := h c (by simp)
      simp only [minL]; omega

theorem nth_pos_get (cs : List Int) (j : Nat) (h : nth cs j ≠ 0) : cs[j]? = some (nth cs j) := by
  unfold nth at *
  cases hj : cs[j]? with
  | none => simp [List.getD, hj] at h
  | some c => simp [List.getD, hj]

end Poly
end Puan
