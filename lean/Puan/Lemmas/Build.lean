/-
  Helper lemmas about the constructors: value of a freshly built node, and the
  invariant (`Good`) that constructors and `negate` preserve.
-/
import Puan.Model.Ast
import Puan.Lemmas.Negate
namespace Puan
namespace P

/-- signs are ±1 and the assignment is inside every leaf's bounds -/
def Good (σ : String → Int) (p : P) : Prop := SignOk p ∧ InB σ p
def GoodL (σ : String → Int) (ks : List P) : Prop := SignOks ks ∧ InBs σ ks

theorem GoodL_iff (σ) (ks : List P) : GoodL σ ks ↔ ∀ k ∈ ks, Good σ k := by
  simp only [GoodL, Good, SignOks_iff, InBs_iff]
  exact ⟨fun h k hk => ⟨h.1 k hk, h.2 k hk⟩, fun h => ⟨fun k hk => (h k hk).1, fun k hk => (h k hk).2⟩⟩

theorem good_node (σ) (i b s v) (ks : List P) (m) (hs : s = 1 ∨ s = -1) (h : GoodL σ ks) :
    Good σ (.node i b s v ks m) := by
  simp only [Good, SignOk, InB]; exact ⟨⟨hs, h.1⟩, h.2⟩

theorem good_kids (σ) (i b s v) (ks : List P) (m) (h : Good σ (.node i b s v ks m)) :
    (s = 1 ∨ s = -1) ∧ GoodL σ ks := by
  simp only [Good, SignOk, InB] at h; exact ⟨h.1.1, h.1.2, h.2⟩

theorem goodL_perm (σ) {l1 l2 : List P} (h : l1.Perm l2) : GoodL σ l1 ↔ GoodL σ l2 := by
  simp only [GoodL_iff]; exact ⟨fun H k hk => H k (h.mem_iff.2 hk), fun H k hk => H k (h.mem_iff.1 hk)⟩

def sgnOf (v : Int) (sgn : Option Int) : Int := sgn.getD (if v > 0 then 1 else -1)

theorem evalPt_mkAtLeast (σ) (v : Int) (ks : List P) (var sgn cls) :
    evalPt σ (mkAtLeast v ks var sgn cls) = if sgnOf v sgn * sumPt σ ks ≥ v then 1 else 0 := by
  unfold mkAtLeast sgnOf
  cases var with
  | none => simp only [evalPt, sumPt_sort]
  | some x => obtain ⟨i, b⟩ := x; simp only [evalPt, sumPt_sort]

theorem mkAtLeast_isLeaf (v : Int) (ks : List P) (var sgn cls) : (mkAtLeast v ks var sgn cls).isLeaf = false := by
  unfold mkAtLeast; cases var <;> simp [isLeaf]

theorem good_mkAtLeast (σ) (v : Int) (ks : List P) (var sgn cls)
    (hs : sgn = none ∨ sgn = some 1 ∨ sgn = some (-1)) (h : GoodL σ ks) :
    Good σ (mkAtLeast v ks var sgn cls) := by
  have hsg : sgnOf v sgn = 1 ∨ sgnOf v sgn = -1 := by
    unfold sgnOf
    rcases hs with rfl | rfl | rfl <;> simp
    omega
  have hk : GoodL σ (sortById ks) := (goodL_perm σ (sortById_perm ks)).2 h
  unfold mkAtLeast
  cases var with
  | none => exact good_node σ _ _ _ _ _ _ hsg hk
  | some x => exact good_node σ _ _ _ _ _ _ hsg hk

theorem good_leafnode (σ) (i b s v) (ks : List P) (m) (hs : s = 1 ∨ s = -1) (h : ∀ k ∈ ks, Good σ k) :
    Good σ (.node i b s v ks m) := good_node σ i b s v ks m hs ((GoodL_iff σ ks).2 h)

mutual
theorem good_negate (σ) : ∀ p, Good σ p → Good σ (negate p)
  | .leaf i b, h => by simpa [negate] using h
  | .node i b s v ks m, h => by
      have ⟨hs, hk⟩ := good_kids σ i b s v ks m h
      have hk' := (GoodL_iff σ ks).1 hk
      have hnp := good_negPairs σ ks hk
      have hnegs : ∀ k ∈ (sortPairs (negPairs ks)).map (·.2), Good σ k := by
        intro k hk
        obtain ⟨p, hp, rfl⟩ := List.mem_map.1 hk
        exact hnp p ((List.mergeSort_perm _ _).mem_iff.1 hp)
      have hsorted : ∀ k ∈ sortById ks, Good σ k := fun k hk => hk' k ((sortById_perm ks).mem_iff.1 hk)
      have hatoms : ∀ a ∈ (sortById ks).filter (·.isLeaf), Good σ a := fun a ha => hsorted a (List.mem_filter.1 ha).1
      have hgrp : ∀ l : List P, (∀ a ∈ l, Good σ a) → Good σ (negGroup l) := fun l hl =>
        good_leafnode σ _ _ _ _ l _ (Or.inr rfl) hl
      have hneg : -s = 1 ∨ -s = -1 := by rcases hs with rfl | rfl <;> simp
      simp only [negate]
      split
      · split
        · exact good_leafnode σ _ _ _ _ _ _ (Or.inl rfl) hnegs
        · split
          · apply good_leafnode σ _ _ _ _ _ _ (Or.inl rfl)
            intro k hk
            rcases List.mem_append.1 hk with h | h
            · exact hnegs k h
            · simp at h; rw [h]; exact hgrp _ hatoms
          · split
            · apply good_leafnode σ _ _ _ _ _ _ (Or.inl rfl)
              intro k hk
              rcases List.mem_append.1 hk with h | h
              · exact hnegs k h
              · obtain ⟨a, ha, rfl⟩ := List.mem_map.1 h
                exact hgrp [a] (by intro x hx; simp at hx; rw [hx]; exact hatoms a ha)
            · exact good_leafnode σ _ _ _ _ _ _ hneg hsorted
      · exact good_leafnode σ _ _ _ _ _ _ hneg hsorted
theorem good_negPairs (σ) : ∀ ks, GoodL σ ks → ∀ p ∈ negPairs ks, Good σ p.2
  | [], _ => by simp [negPairs]
  | .leaf i b :: ks, h => by
      have h2 : GoodL σ ks := (GoodL_iff σ ks).2 (fun k hk => (GoodL_iff σ _).1 h k (by simp [hk]))
      simpa [negPairs] using good_negPairs σ ks h2
  | .node i b s v ks' m :: ks, h => by
      have h1 : Good σ (.node i b s v ks' m) := (GoodL_iff σ _).1 h _ (by simp)
      have h2 : GoodL σ ks := (GoodL_iff σ ks).2 (fun k hk => (GoodL_iff σ _).1 h k (by simp [hk]))
      intro p hp
      simp only [negPairs, List.mem_cons] at hp
      rcases hp with rfl | hp
      · exact good_negate σ _ h1
      · exact good_negPairs σ ks h2 p hp
end

theorem negate_isLeaf : ∀ p : P, p.isLeaf = false → (negate p).isLeaf = false
  | .leaf .., h => by simp [isLeaf] at h
  | .node i b s v ks m, _ => by
      simp only [negate]
      split
      · split
        · rfl
        · split
          · rfl
          · split <;> rfl
      · rfl

end P
end Puan
