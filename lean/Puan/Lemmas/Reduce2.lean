/-
  Helper lemmas for C11: substituting forced columns (`keep` / `fixedSum` / `merge`),
  agreement of a point with a column mask.
-/
import Puan.Lemmas.Poly
namespace Puan
namespace Poly

/-- the point takes the forced values of the mask (one mask entry per coordinate) -/
def Agrees : List Int → List (Option Int) → Prop
  | x :: xs, some a :: m => x = a ∧ Agrees xs m
  | _ :: xs, none :: m => Agrees xs m
  | [], [] => True
  | _, _ => False

/-- forced values lie within the column's bounds (one mask entry per column) -/
def BoundsOk : List (Option Int) → List Bnd → Prop
  | some a :: m, b :: bs => (b.lo ≤ a ∧ a ≤ b.hi) ∧ BoundsOk m bs
  | none :: m, _ :: bs => BoundsOk m bs
  | [], [] => True
  | _, _ => False

/-- fill the forced values back in -/
def merge : List (Option Int) → List Int → List Int
  | some a :: m, ys => a :: merge m ys
  | none :: m, y :: ys => y :: merge m ys
  | none :: _, [] => []
  | [], _ => []

theorem agrees_length : ∀ (xs : List Int) (m : List (Option Int)), Agrees xs m → xs.length = m.length
  | [], [], _ => rfl
  | [], _ :: _, h => by simp [Agrees] at h
  | _ :: _, [], h => by simp [Agrees] at h
  | x :: xs, some a :: m, h => by
      have : x = a ∧ Agrees xs m := by simpa [Agrees] using h
      simp [agrees_length xs m this.2]
  | x :: xs, none :: m, h => by
      have : Agrees xs m := by simpa [Agrees] using h
      simp [agrees_length xs m this]

/-- substituting the forced coordinates splits the row value -/
theorem dot_keep : ∀ (cs xs : List Int) (m : List (Option Int)), Agrees xs m →
    dot cs xs = dot (keep m cs) (keep m xs) + fixedSum m cs
  | [], xs, m, _ => by
      cases m with
      | nil => simp [dot, keep, fixedSum]
      | cons o m => cases o <;> simp [dot, keep, fixedSum]
  | c :: cs, [], [], _ => by simp [dot, keep, fixedSum]
  | _ :: _, [], _ :: _, h => by simp [Agrees] at h
  | _ :: _, _ :: _, [], h => by simp [Agrees] at h
  | c :: cs, x :: xs, some a :: m, h => by
      have ⟨h1, h2⟩ : x = a ∧ Agrees xs m := by simpa [Agrees] using h
      have ih := dot_keep cs xs m h2
      simp only [dot, keep, fixedSum, h1]; omega
  | c :: cs, x :: xs, none :: m, h => by
      have h2 : Agrees xs m := by simpa [Agrees] using h
      have ih := dot_keep cs xs m h2
      simp only [dot, keep, fixedSum]; omega

/-- a row holds at `xs` iff the column-reduced row holds at the remaining coordinates -/
theorem reduceRow_sat (r : PRow) (xs : List Int) (m : List (Option Int)) (h : Agrees xs m) :
    rowSat r xs ↔ rowSat (reduceRow m r) (keep m xs) := by
  have := dot_keep r.cs xs m h
  simp only [rowSat, reduceRow]; omega

theorem agrees_merge : ∀ (m : List (Option Int)) (ys : List Int) (bs : List Bnd),
    m.length = bs.length → InBox ys (keep m bs) → Agrees (merge m ys) m ∧ keep m (merge m ys) = ys
  | [], ys, [], _, h => by
      cases ys with
      | nil => simp [merge, Agrees, keep]
      | cons y ys => simp [keep, InBox] at h
  | [], _, _ :: _, hl, _ => by simp at hl
  | _ :: _, _, [], hl, _ => by simp at hl
  | some a :: m, ys, b :: bs, hl, h => by
      have ih := agrees_merge m ys bs (by simpa using hl) (by simpa [keep] using h)
      simp only [merge, Agrees, keep]; exact ⟨⟨trivial, ih.1⟩, ih.2⟩
  | none :: m, [], b :: bs, _, h => by simp [keep, InBox] at h
  | none :: m, y :: ys, b :: bs, hl, h => by
      have ⟨_, h2⟩ : (b.lo ≤ y ∧ y ≤ b.hi) ∧ InBox ys (keep m bs) := by simpa [keep, InBox] using h
      have ih := agrees_merge m ys bs (by simpa using hl) h2
      simp only [merge, Agrees, keep]; exact ⟨ih.1, by rw [ih.2]⟩

theorem inBox_merge : ∀ (m : List (Option Int)) (ys : List Int) (bs : List Bnd),
    BoundsOk m bs → InBox ys (keep m bs) → InBox (merge m ys) bs
  | [], ys, [], _, h => by
      cases ys with
      | nil => simp [merge, InBox]
      | cons y ys => simp [keep, InBox] at h
  | [], _, _ :: _, hb, _ => by simp [BoundsOk] at hb
  | _ :: _, _, [], hb, _ => by
      rename_i o _; cases o <;> simp [BoundsOk] at hb
  | some a :: m, ys, b :: bs, hb, h => by
      have ⟨hb1, hb2⟩ : (b.lo ≤ a ∧ a ≤ b.hi) ∧ BoundsOk m bs := by simpa [BoundsOk] using hb
      simp only [merge, InBox]
      exact ⟨hb1, inBox_merge m ys bs hb2 (by simpa [keep] using h)⟩
  | none :: m, [], b :: bs, _, h => by simp [keep, InBox] at h
  | none :: m, y :: ys, b :: bs, hb, h => by
      have hb2 : BoundsOk m bs := by simpa [BoundsOk] using hb
      have ⟨h1, h2⟩ : (b.lo ≤ y ∧ y ≤ b.hi) ∧ InBox ys (keep m bs) := by simpa [keep, InBox] using h
      simp only [merge, InBox]
      exact ⟨h1, inBox_merge m ys bs hb2 h2⟩

theorem inBox_keep : ∀ (xs : List Int) (m : List (Option Int)) (bs : List Bnd),
    InBox xs bs → Agrees xs m → InBox (keep m xs) (keep m bs)
  | [], [], [], _, _ => by simp [keep, InBox]
  | [], _ :: _, _, _, h => by simp [Agrees] at h
  | _ :: _, [], _, _, h => by simp [Agrees] at h
  | [], [], _ :: _, h, _ => by simp [InBox] at h
  | _ :: _, _, [], h, _ => by simp [InBox] at h
  | x :: xs, some a :: m, b :: bs, hb, ha => by
      have ⟨_, hb2⟩ : (b.lo ≤ x ∧ x ≤ b.hi) ∧ InBox xs bs := by simpa [InBox] using hb
      have ⟨_, ha2⟩ : x = a ∧ Agrees xs m := by simpa [Agrees] using ha
      simpa [keep] using inBox_keep xs m bs hb2 ha2
  | x :: xs, none :: m, b :: bs, hb, ha => by
      have ⟨hb1, hb2⟩ : (b.lo ≤ x ∧ x ≤ b.hi) ∧ InBox xs bs := by simpa [InBox] using hb
      have ha2 : Agrees xs m := by simpa [Agrees] using ha
      simp only [keep, InBox]
      exact ⟨hb1, inBox_keep xs m bs hb2 ha2⟩

theorem merge_keep : ∀ (xs : List Int) (m : List (Option Int)), Agrees xs m → merge m (keep m xs) = xs
  | [], [], _ => by simp [merge]
  | [], _ :: _, h => by simp [Agrees] at h
  | _ :: _, [], h => by simp [Agrees] at h
  | x :: xs, some a :: m, h => by
      have ⟨h1, h2⟩ : x = a ∧ Agrees xs m := by simpa [Agrees] using h
      simp [merge, keep, h1, merge_keep xs m h2]
  | x :: xs, none :: m, h => by
      have h2 : Agrees xs m := by simpa [Agrees] using h
      simp [merge, keep, merge_keep xs m h2]

/-- rows removed by a row mask -/
def removed {α} : List Bool → List α → List α
  | true :: m, x :: xs => x :: removed m xs
  | false :: m, _ :: xs => removed m xs
  | _, _ => []

theorem mem_keepRows_or_removed {α} : ∀ (m : List Bool) (l : List α), m.length = l.length →
    ∀ x ∈ l, x ∈ keepRows m l ∨ x ∈ removed m l
  | [], [], _, x, h => by simp at h
  | [], _ :: _, hl, _, _ => by simp at hl
  | _ :: _, [], hl, _, _ => by simp at hl
  | b :: m, y :: l, hl, x, h => by
      have ih := mem_keepRows_or_removed m l (by simpa using hl)
      rcases List.mem_cons.1 h with rfl | h
      · cases b <;> simp [keepRows, removed]
      · rcases ih x h with h' | h'
        · left; cases b <;> simp [keepRows, h']
        · right; cases b <;> simp [removed, h']

theorem keepRows_sub {α} : ∀ (m : List Bool) (l : List α), ∀ x ∈ keepRows m l, x ∈ l
  | [], _, x, h => by simp [keepRows] at h
  | _ :: _, [], x, h => by simp [keepRows] at h
  | true :: m, y :: l, x, h => by
      have := keepRows_sub m l x (by simpa [keepRows] using h); simp [this]
  | false :: m, y :: l, x, h => by
      simp only [keepRows, List.mem_cons] at h
      rcases h with rfl | h
      · simp
      · have := keepRows_sub m l x h; simp [this]

end Poly
end Puan
