/-
  The bit allocation over *sorted keys*: every entry's weight is 1 + the sum of the weights of all
  entries with a strictly smaller key (so it is a function of the key alone, equal keys share a
  weight, and a weight strictly exceeds the sum of everything ranked below it).
-/
import Puan.Model.Prio
namespace Puan
namespace Prio

theorem Key.ext' {a b : Key} (h1 : a.row = b.row) (h2 : a.mag = b.mag) : a = b := by
  cases a; cases b; simp at h1 h2; simp [h1, h2]

theorem Key.lt_of_le_ne {a b : Key} (h : Key.le a b) (hne : b ≠ a) : Key.lt a b := by
  unfold Key.le at h; unfold Key.lt
  rcases h with h | ⟨h1, h2⟩
  · exact Or.inl h
  · by_cases hm : a.mag = b.mag
    · exact absurd (Key.ext' h1 hm).symm hne
    · exact Or.inr ⟨h1, by omega⟩

theorem Key.le_refl (a : Key) : Key.le a a := by unfold Key.le; omega
theorem Key.le_trans {a b c : Key} (h1 : Key.le a b) (h2 : Key.le b c) : Key.le a c := by
  unfold Key.le at *; omega
theorem Key.le_total (a b : Key) : Key.le a b ∨ Key.le b a := by unfold Key.le; omega
theorem Key.not_lt_self (a : Key) : ¬ Key.lt a a := by unfold Key.lt; omega
theorem Key.not_lt_of_le {a b : Key} (h : Key.le a b) : ¬ Key.lt b a := by unfold Key.le at h; unfold Key.lt; omega
theorem Key.lt_of_le_lt {a b c : Key} (h1 : Key.le a b) (h2 : Key.lt b c) : Key.lt a c := by
  unfold Key.le at h1; unfold Key.lt at *; omega
theorem Key.lt_of_lt_le {a b c : Key} (h1 : Key.lt a b) (h2 : Key.le b c) : Key.lt a c := by
  unfold Key.le at h2; unfold Key.lt at *; omega
theorem Key.le_of_lt {a b : Key} (h : Key.lt a b) : Key.le a b := by unfold Key.lt at h; unfold Key.le; omega
theorem Key.lt_or_le (a b : Key) : Key.lt a b ∨ Key.le b a := by unfold Key.lt Key.le; omega

/-! ### insertion sort: a sorted permutation -/

def SortedK : List Key → Prop
  | [] => True
  | [_] => True
  | a :: b :: r => Key.le a b ∧ SortedK (b :: r)

theorem sortedK_tail {a : Key} {l : List Key} (h : SortedK (a :: l)) : SortedK l := by
  cases l with
  | nil => trivial
  | cons b r => exact h.2

theorem sortedK_head_le {a : Key} : ∀ {l : List Key}, SortedK (a :: l) → ∀ x ∈ l, Key.le a x
  | [], _, x, hx => by simp at hx
  | b :: r, h, x, hx => by
      rcases List.mem_cons.1 hx with rfl | hx
      · exact h.1
      · have := sortedK_head_le (a := b) h.2 x hx
        exact Key.le_trans h.1 this

theorem insertK_perm (k : Key) : ∀ l : List Key, (insertK k l).Perm (k :: l)
  | [] => by simp [insertK]
  | x :: xs => by
      simp only [insertK]
      split
      · exact List.Perm.refl _
      · exact ((insertK_perm k xs).cons x).trans (List.Perm.swap k x xs)

theorem sortK_perm : ∀ l : List Key, (sortK l).Perm l
  | [] => by simp [sortK]
  | k :: ks => by
      simp only [sortK]
      exact (insertK_perm k (sortK ks)).trans ((sortK_perm ks).cons k)

theorem insertK_sorted (k : Key) : ∀ l : List Key, SortedK l → SortedK (insertK k l)
  | [], _ => by simp [insertK, SortedK]
  | x :: xs, h => by
      simp only [insertK]
      split
      · rename_i hle; exact ⟨hle, h⟩
      · rename_i hnle
        have hxk : Key.le x k := by
          rcases Key.le_total k x with h' | h'
          · exact absurd h' hnle
          · exact h'
        have ih := insertK_sorted k xs (sortedK_tail h)
        -- the head of `insertK k xs` is either k or the head of xs
        cases xs with
        | nil => simp [insertK, SortedK, hxk]
        | cons y ys =>
            simp only [insertK] at ih ⊢
            split
            · exact ⟨hxk, by simpa [insertK, *] using ih⟩
            · rename_i h2
              simp only [h2, if_false] at ih
              exact ⟨h.1, ih⟩

theorem sortK_sorted : ∀ l : List Key, SortedK (sortK l)
  | [] => trivial
  | k :: ks => by simp only [sortK]; exact insertK_sorted k _ (sortK_sorted ks)

/-! ### sums over weighted keys -/

def sumAll : List (Key × Int) → Int
  | [] => 0
  | e :: r => e.2 + sumAll r

/-- sum of the weights of the entries whose key is strictly below `k` -/
def sumBelow (k : Key) : List (Key × Int) → Int
  | [] => 0
  | e :: r => (if Key.lt e.1 k then e.2 else 0) + sumBelow k r

theorem sumBelow_append (k : Key) : ∀ a b : List (Key × Int), sumBelow k (a ++ b) = sumBelow k a + sumBelow k b
  | [], b => by simp [sumBelow]
  | e :: r, b => by simp [sumBelow, sumBelow_append k r b]; omega

theorem sumAll_append : ∀ a b : List (Key × Int), sumAll (a ++ b) = sumAll a + sumAll b
  | [], b => by simp [sumAll]
  | e :: r, b => by simp [sumAll, sumAll_append r b]; omega

theorem sumBelow_all_lt (k : Key) : ∀ l : List (Key × Int), (∀ e ∈ l, Key.lt e.1 k) → sumBelow k l = sumAll l
  | [], _ => rfl
  | e :: r, h => by
      have h1 : Key.lt e.1 k := h e (by simp)
      simp [sumBelow, sumAll, h1, sumBelow_all_lt k r (fun x hx => h x (by simp [hx]))]

theorem sumBelow_none_lt (k : Key) : ∀ l : List (Key × Int), (∀ e ∈ l, ¬ Key.lt e.1 k) → sumBelow k l = 0
  | [], _ => rfl
  | e :: r, h => by
      have h1 : ¬ Key.lt e.1 k := h e (by simp)
      simp [sumBelow, h1, sumBelow_none_lt k r (fun x hx => h x (by simp [hx]))]

theorem mem_zip_fst {α β} : ∀ {l : List α} {m : List β} {e : α × β}, e ∈ List.zip l m → e.1 ∈ l
  | [], _, _, h => by simp at h
  | _ :: _, [], _, h => by simp at h
  | a :: l, b :: m, e, h => by
      simp only [List.zip_cons_cons, List.mem_cons] at h
      rcases h with rfl | h
      · simp
      · exact List.mem_cons_of_mem _ (mem_zip_fst h)

/-- The invariant of the bit allocation along a sorted list.  `E` = the entries emitted so far
    (all with key ≤ `prev`), `total` their weight sum, `w` the weight of the current run. -/
theorem obaGoK_inv : ∀ (xs : List Key) (prev : Key) (w total : Int) (E : List (Key × Int)),
    SortedK (prev :: xs) → (∀ e ∈ E, Key.le e.1 prev) → total = sumAll E → w = 1 + sumBelow prev E →
    ∀ e ∈ List.zip xs (obaGoK prev w total xs), e.2 = 1 + sumBelow e.1 (E ++ List.zip xs (obaGoK prev w total xs))
  | [], _, _, _, _, _, _, _, _, e, he => by simp [obaGoK] at he
  | y :: r, prev, w, total, E, hs, hE, ht, hw, e, he => by
      have hpy : Key.le prev y := sortedK_head_le hs y (by simp)
      have hsr : SortedK (y :: r) := sortedK_tail hs
      have hyr : ∀ x ∈ r, Key.le y x := sortedK_head_le hsr
      by_cases hy : y = prev
      · -- same run
        subst hy
        simp only [obaGoK, if_true, List.zip_cons_cons, List.mem_cons] at he ⊢
        have ih := obaGoK_inv r y w (total + w) (E ++ [(y, w)]) hsr
          (by intro x hx; rcases List.mem_append.1 hx with h | h
              · exact hE x h
              · simp at h; subst h; exact Key.le_refl _)
          (by rw [sumAll_append]; simp [sumAll]; omega)
          (by rw [sumBelow_append]; simp [sumBelow, Key.not_lt_self]; omega)
        rcases he with rfl | he
        · -- the head: nothing after it is below it
          have hz : sumBelow y (List.zip r (obaGoK y w (total + w) r)) = 0 :=
            sumBelow_none_lt y _ (fun x hx => Key.not_lt_of_le (hyr x.1 (mem_zip_fst hx)))
          rw [sumBelow_append]
          simp [sumBelow, Key.not_lt_self, hz]
          omega
        · have := ih e he
          simpa [List.append_assoc] using this
      · -- a new run: everything emitted so far is strictly below y
        have hlt : Key.lt prev y := Key.lt_of_le_ne hpy hy
        have hEy : ∀ x ∈ E, Key.lt x.1 y := fun x hx => Key.lt_of_le_lt (hE x hx) hlt
        simp only [obaGoK, hy, if_false, List.zip_cons_cons, List.mem_cons] at he ⊢
        have ih := obaGoK_inv r y (total + 1) (total + (total + 1)) (E ++ [(y, total + 1)]) hsr
          (by intro x hx; rcases List.mem_append.1 hx with h | h
              · exact Key.le_of_lt (hEy x h)
              · simp at h; subst h; exact Key.le_refl _)
          (by rw [sumAll_append]; simp [sumAll]; omega)
          (by rw [sumBelow_append, sumBelow_all_lt y E hEy]; simp [sumBelow, Key.not_lt_self]; omega)
        rcases he with rfl | he
        · have hz : sumBelow y (List.zip r (obaGoK y (total + 1) (total + (total + 1)) r)) = 0 :=
            sumBelow_none_lt y _ (fun x hx => Key.not_lt_of_le (hyr x.1 (mem_zip_fst hx)))
          rw [sumBelow_append, sumBelow_all_lt y E hEy]
          simp [sumBelow, Key.not_lt_self, hz]
          omega
        · have := ih e he
          simpa [List.append_assoc] using this

/-- In the table of sorted keys and their weights, every weight is 1 + the sum of the weights of all
    entries with a strictly smaller key. -/
theorem table_weight (ks : List Key) : ∀ e ∈ table ks, e.2 = 1 + sumBelow e.1 (table ks) := by
  unfold table
  have hs := sortK_sorted ks
  generalize sortK ks = l at hs
  cases l with
  | nil => simp [obaK]
  | cons x xs =>
      intro e he
      simp only [obaK, List.zip_cons_cons, List.mem_cons] at he ⊢
      have ih := obaGoK_inv xs x 1 1 [(x, 1)] hs
        (by intro e he; simp at he; subst he; exact Key.le_refl _) (by simp [sumAll])
        (by simp [sumBelow, Key.not_lt_self])
      rcases he with rfl | he
      · have hz : sumBelow x (List.zip xs (obaGoK x 1 1 xs)) = 0 :=
          sumBelow_none_lt x _ (fun y hy => Key.not_lt_of_le (sortedK_head_le hs y.1 (mem_zip_fst hy)))
        simp [sumBelow, Key.not_lt_self, hz]
      · simpa using ih e he

theorem obaGoK_length : ∀ (xs : List Key) (prev : Key) (w total : Int), (obaGoK prev w total xs).length = xs.length
  | [], _, _, _ => rfl
  | x :: xs, prev, w, total => by
      simp only [obaGoK]; split <;> simp [obaGoK_length xs]

theorem obaK_length (l : List Key) : (obaK l).length = l.length := by
  cases l with
  | nil => rfl
  | cons x xs => simp [obaK, obaGoK_length]

theorem table_keys (ks : List Key) : (table ks).map (·.1) = sortK ks := by
  unfold table
  exact List.map_fst_zip (by rw [obaK_length]; exact Nat.le_refl _)

/-- weight of a sorted-table entry is the table's weight of its key -/
theorem lookup_mem : ∀ (t : List (Key × Int)) (k : Key) (w : Int), t.lookup k = some w → (k, w) ∈ t
  | [], _, _, h => by simp [List.lookup] at h
  | (k', w') :: r, k, w, h => by
      simp only [List.lookup] at h
      split at h
      · rename_i heq
        have : k = k' := by simpa using heq
        cases h; subst this; simp
      · exact List.mem_cons_of_mem _ (lookup_mem r k w h)

theorem lookup_some_of_mem : ∀ (t : List (Key × Int)) (e : Key × Int), e ∈ t → ∃ w, t.lookup e.1 = some w
  | [], _, h => by simp at h
  | (k', w') :: r, e, h => by
      simp only [List.lookup]
      split
      · exact ⟨w', rfl⟩
      · rename_i hne
        rcases List.mem_cons.1 h with rfl | h
        · simp at hne
        · exact lookup_some_of_mem r e h

theorem weightOf_entry (ks : List Key) (e : Key × Int) (he : e ∈ table ks) : weightOf (table ks) e.1 = e.2 := by
  obtain ⟨w, hw⟩ := lookup_some_of_mem (table ks) e he
  have hm := lookup_mem (table ks) e.1 w hw
  have h1 := table_weight ks e he
  have h2 := table_weight ks (e.1, w) hm
  simp only [weightOf, hw, Option.getD_some]
  simp only at h2
  omega

/-- every key that occurs gets a weight ≥ 1 -/
theorem obaGoK_pos : ∀ (xs : List Key) (x : Key) (w0 T : Int), 1 ≤ w0 → 0 ≤ T → ∀ w ∈ obaGoK x w0 T xs, 1 ≤ w
  | [], _, _, _, _, _, w, h => by simp [obaGoK] at h
  | y :: r, x, w0, T, h0, hT, w, h => by
      simp only [obaGoK] at h
      split at h
      · rcases List.mem_cons.1 h with rfl | h
        · exact h0
        · exact obaGoK_pos r x w0 (T + w0) h0 (by omega) w h
      · rcases List.mem_cons.1 h with rfl | h
        · omega
        · exact obaGoK_pos r y (T + 1) (T + (T + 1)) (by omega) (by omega) w h

theorem table_pos (ks : List Key) : ∀ e ∈ table ks, 1 ≤ e.2 := by
  intro e he
  have : e.2 ∈ obaK (sortK ks) := by
    unfold table at he
    exact (List.of_mem_zip he).2
  generalize sortK ks = l at this
  cases l with
  | nil => simp [obaK] at this
  | cons x xs =>
      simp only [obaK, List.mem_cons] at this
      rcases this with h | h
      · omega
      · exact obaGoK_pos xs x 1 1 (by omega) (by omega) _ h

theorem mem_table_of_mem (ks : List Key) (k : Key) (hk : k ∈ ks) : ∃ w, (k, w) ∈ table ks := by
  have h1 : k ∈ sortK ks := (sortK_perm ks).mem_iff.2 hk
  rw [← table_keys ks] at h1
  obtain ⟨e, he, rfl⟩ := List.mem_map.1 h1
  exact ⟨e.2, he⟩

/-- the weight of a key that occurs: 1 + the sum of the table weights of all strictly smaller keys, and ≥ 1 -/
theorem weightOf_spec (ks : List Key) (k : Key) (hk : k ∈ ks) :
    weightOf (table ks) k = 1 + sumBelow k (table ks) ∧ 1 ≤ weightOf (table ks) k := by
  obtain ⟨w, hw⟩ := mem_table_of_mem ks k hk
  have h1 := weightOf_entry ks (k, w) hw
  have h2 := table_weight ks (k, w) hw
  have h3 := table_pos ks (k, w) hw
  simp only at h1 h2 h3
  omega

/-- sum of `f k'` over the keys of a list that lie strictly below `k` -/
def keySumBelow (f : Key → Int) (k : Key) : List Key → Int
  | [] => 0
  | k' :: r => (if Key.lt k' k then f k' else 0) + keySumBelow f k r

theorem keySumBelow_perm (f : Key → Int) (k : Key) {l1 l2 : List Key} (h : l1.Perm l2) :
    keySumBelow f k l1 = keySumBelow f k l2 := by
  induction h with
  | nil => rfl
  | cons x _ ih => simp [keySumBelow, ih]
  | swap x y l => simp [keySumBelow]; omega
  | trans _ _ ih1 ih2 => rw [ih1, ih2]

theorem sumBelow_eq_keySum (ks : List Key) (k : Key) :
    ∀ t : List (Key × Int), (∀ e ∈ t, weightOf (table ks) e.1 = e.2) →
      sumBelow k t = keySumBelow (weightOf (table ks)) k (t.map (·.1))
  | [], _ => rfl
  | e :: r, h => by
      have h1 := h e (by simp)
      simp only [sumBelow, List.map_cons, keySumBelow, h1,
        sumBelow_eq_keySum ks k r (fun x hx => h x (by simp [hx]))]


theorem keySumBelow_nonneg (ks : List Key) (k : Key) : ∀ l : List Key, (∀ x ∈ l, x ∈ ks) →
    0 ≤ keySumBelow (weightOf (table ks)) k l
  | [], _ => by simp [keySumBelow]
  | x :: r, h => by
      have := keySumBelow_nonneg ks k r (fun y hy => h y (by simp [hy]))
      have := (weightOf_spec ks x (h x (by simp))).2
      simp only [keySumBelow]; split <;> omega

theorem keySumBelow_ge_of_mem (ks : List Key) (k j : Key) : ∀ l : List Key, (∀ x ∈ l, x ∈ ks) → j ∈ l → Key.lt j k →
    weightOf (table ks) j ≤ keySumBelow (weightOf (table ks)) k l
  | [], _, hj, _ => by simp at hj
  | x :: r, h, hj, hlt => by
      have hr := keySumBelow_nonneg ks k r (fun y hy => h y (by simp [hy]))
      simp only [keySumBelow]
      rcases List.mem_cons.1 hj with rfl | hj
      · simp [hlt]; omega
      · have := keySumBelow_ge_of_mem ks k j r (fun y hy => h y (by simp [hy])) hj hlt
        have := (weightOf_spec ks x (h x (by simp))).2
        split <;> omega


/-- one entry of `shadowSpec` -/
def entry (t : List (Key × Int)) (c : List Int) : Int :=
  match keyOf c with
  | none => 0
  | some k => sgnOf c * weightOf t k


theorem sgnOf_of_key (c : List Int) (k : Key) (h : keyOf c = some k) : sgnOf c = 1 ∨ sgnOf c = -1 := by
  unfold keyOf at h
  unfold sgnOf
  cases hl : lastNZ c with
  | none => simp [hl] at h
  | some p => obtain ⟨i, v⟩ := p; simp only; split <;> simp

theorem sgnOf_none (c : List Int) (h : keyOf c = none) : sgnOf c = 0 := by
  unfold keyOf at h
  unfold sgnOf
  cases hl : lastNZ c with
  | none => rfl
  | some p => simp [hl] at h


/-! ### levels: the number of entries ranked strictly below a key is a strictly monotone, injective level function -/

theorem filter_length_lt {α} (p q : α → Bool) : ∀ l : List α, (∀ x, p x = true → q x = true) →
    (∃ a ∈ l, q a = true ∧ p a = false) → (l.filter p).length < (l.filter q).length
  | [], _, h => by obtain ⟨a, ha, _⟩ := h; simp at ha
  | x :: r, hpq, h => by
      have hle : (r.filter p).length ≤ (r.filter q).length := by
        clear h
        induction r with
        | nil => simp
        | cons y ys ih =>
            simp only [List.filter_cons]
            cases hp : p y <;> cases hq : q y <;> simp <;> try omega
            have := hpq y hp; rw [hq] at this; cases this
      obtain ⟨a, ha, hqa, hpa⟩ := h
      simp only [List.filter_cons]
      rcases List.mem_cons.1 ha with rfl | ha'
      · simp [hqa, hpa]; omega
      · have ih := filter_length_lt p q r hpq ⟨a, ha', hqa, hpa⟩
        cases hp : p x <;> cases hq : q x <;> simp <;> try omega
        have := hpq x hp; rw [hq] at this; cases this

theorem levOf_lt (ks : List Key) (k' k : Key) (hk' : k' ∈ ks) (h : Key.lt k' k) : levOf ks k' < levOf ks k := by
  unfold levOf
  apply filter_length_lt
  · intro x hx
    simp only [decide_eq_true_eq] at hx ⊢
    unfold Key.lt at *; omega
  · exact ⟨k', hk', by simpa using h, by simpa using Key.not_lt_self k'⟩

theorem key_trichotomy (a b : Key) : Key.lt a b ∨ a = b ∨ Key.lt b a := by
  by_cases h1 : a.row = b.row
  · by_cases h2 : a.mag = b.mag
    · exact Or.inr (Or.inl (Key.ext' h1 h2))
    · unfold Key.lt; omega
  · unfold Key.lt; omega

theorem levOf_lt_iff (ks : List Key) (k' k : Key) (hk' : k' ∈ ks) (hk : k ∈ ks) :
    levOf ks k' < levOf ks k ↔ Key.lt k' k := by
  constructor
  · intro h
    rcases key_trichotomy k' k with h1 | h1 | h1
    · exact h1
    · subst h1; omega
    · have := levOf_lt ks k k' hk h1; omega
  · exact levOf_lt ks k' k hk'

theorem levOf_inj (ks : List Key) (k' k : Key) (hk' : k' ∈ ks) (hk : k ∈ ks) (h : levOf ks k' = levOf ks k) : k' = k := by
  rcases key_trichotomy k' k with h1 | h1 | h1
  · have := levOf_lt ks k' k hk' h1; omega
  · exact h1
  · have := levOf_lt ks k k' hk h1; omega


/-! ### distinct keys and dense ranks -/

theorem mem_dedupK : ∀ (l : List Key) (k : Key), k ∈ dedupK l ↔ k ∈ l
  | [], k => by simp [dedupK]
  | x :: r, k => by
      simp only [dedupK]
      by_cases h : r.contains x = true
      · simp only [h, if_true, mem_dedupK r k, List.mem_cons]
        constructor
        · exact Or.inr
        · rintro (rfl | h')
          · simpa using h
          · exact h'
      · simp only [h, if_false, List.mem_cons, mem_dedupK r k, Bool.false_eq_true]

theorem nodup_dedupK : ∀ l : List Key, (dedupK l).Nodup
  | [] => by simp [dedupK]
  | x :: r => by
      simp only [dedupK]
      by_cases h : r.contains x = true
      · simp only [h, if_true]; exact nodup_dedupK r
      · simp only [h, if_false, Bool.false_eq_true]
        refine List.nodup_cons.2 ⟨?_, nodup_dedupK r⟩
        intro hx
        exact h (by simpa using (mem_dedupK r x).1 hx)

end Prio
end Puan
