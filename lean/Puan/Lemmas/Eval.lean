/-
  Helper lemmas about interval evaluation (`assume`): soundness w.r.t. the point
  semantics, exactness on total interpretations, monotonicity, well-formedness.
-/
import Puan.Model.Eval
namespace Puan
namespace P

theorem SignOks_iff : ∀ ks : List P, SignOks ks ↔ ∀ k ∈ ks, SignOk k
  | [] => by simp [SignOks]
  | k :: ks => by simp [SignOks, SignOks_iff ks]

theorem assumeL_eq_map (I : Interp) : ∀ ks, assumeL I ks = ks.map (assume I)
  | [] => by simp [assumeL]
  | k :: ks => by simp [assumeL, assumeL_eq_map I ks]

theorem assume_id (I : Interp) : ∀ p, (assume I p).id = p.id
  | .leaf i b => by simp [assume, id]
  | .node i b s v ks m => by
      simp only [assume]; split <;> simp [id]

theorem thr_in (s v : Int) (ks : List P) (e : Int)
    (h1 : sumLo s ks ≤ s * e) (h2 : s * e ≤ sumHi s ks) :
    Bnd.mem (if s * e ≥ v then 1 else 0) (thr s v ks) := by
  unfold Bnd.mem thr; simp only
  split <;> split <;> split <;> omega

/-! ### σ is a completion of `I` on the leaves of a tree -/
mutual
def Compl (I : Interp) (σ : String → Int) : P → Prop
  | .leaf i b => ((I i).getD b).lo ≤ σ i ∧ σ i ≤ ((I i).getD b).hi
  | .node _ _ _ _ ks _ => ComplL I σ ks
def ComplL (I : Interp) (σ : String → Int) : List P → Prop
  | [] => True
  | k :: ks => Compl I σ k ∧ ComplL I σ ks
end

mutual
/-- interval evaluation contains the value under every completion -/
theorem sound (I σ) : ∀ p, SignOk p → Compl I σ p → Bnd.mem (evalOv I σ p) (assume I p).bnd
  | .leaf i b, _, hc => by simpa [assume, bnd, evalOv, Bnd.mem, Compl] using hc
  | .node i b s v ks m, hs, hc => by
      have ⟨hs1, hs2⟩ : (s = 1 ∨ s = -1) ∧ SignOks ks := by simpa [SignOk] using hs
      have hc' : ComplL I σ ks := by simpa [Compl] using hc
      have ⟨h1, h2⟩ := soundL I σ s hs1 ks hs2 hc'
      simp only [assume, evalOv]
      split
      · rename_i heq; simp [bnd, Bnd.mem, heq]
      · simp only [bnd]
        exact thr_in s v (assumeL I ks) (sumOv I σ ks) h1 h2
theorem soundL (I σ) (s : Int) (hs : s = 1 ∨ s = -1) : ∀ ks, SignOks ks → ComplL I σ ks →
    sumLo s (assumeL I ks) ≤ s * sumOv I σ ks ∧ s * sumOv I σ ks ≤ sumHi s (assumeL I ks)
  | [], _, _ => by simp [assumeL, sumLo, sumHi, sumOv]
  | k :: ks, hk, hc => by
      have ⟨k1, k2⟩ : SignOk k ∧ SignOks ks := by simpa [SignOks] using hk
      have ⟨c1, c2⟩ : Compl I σ k ∧ ComplL I σ ks := by simpa [ComplL] using hc
      have hin := sound I σ k k1 c1
      have ⟨ih1, ih2⟩ := soundL I σ s hs ks k2 c2
      simp only [assumeL, sumLo, sumHi, sumOv, sLo, sHi]
      unfold Bnd.mem at hin
      rcases hs with rfl | rfl <;> simp <;> omega
end

/-! ### total interpretations: every leaf a constant -/
mutual
def Total (I : Interp) (σ : String → Int) : P → Prop
  | .leaf i _ => I i = some ⟨σ i, σ i⟩
  | .node _ _ _ _ ks _ => TotalL I σ ks
def TotalL (I : Interp) (σ : String → Int) : List P → Prop
  | [] => True
  | k :: ks => Total I σ k ∧ TotalL I σ ks
end

mutual
/-- on a total interpretation the interval evaluation is the exact point value -/
theorem exact (I σ) : ∀ p, SignOk p → Total I σ p → (assume I p).bnd = Bnd.pt (evalOv I σ p)
  | .leaf i b, _, ht => by
      have h : I i = some ⟨σ i, σ i⟩ := by simpa [Total] using ht
      simp [assume, bnd, evalOv, Bnd.pt, h]
  | .node i b s v ks m, hs, ht => by
      have ⟨hs1, hs2⟩ : (s = 1 ∨ s = -1) ∧ SignOks ks := by simpa [SignOk] using hs
      have ht' : TotalL I σ ks := by simpa [Total] using ht
      have ⟨h1, h2⟩ := exactL I σ s hs1 ks hs2 ht'
      simp only [assume, evalOv]
      split
      · rename_i heq
        simp only [bnd, Bnd.pt]
        cases hb : (I i).getD b with
        | mk lo hi => simp [hb] at heq ⊢; exact heq.symm
      · simp only [bnd, thr, Bnd.pt, h1, h2]
theorem exactL (I σ) (s : Int) (hs : s = 1 ∨ s = -1) : ∀ ks, SignOks ks → TotalL I σ ks →
    sumLo s (assumeL I ks) = s * sumOv I σ ks ∧ sumHi s (assumeL I ks) = s * sumOv I σ ks
  | [], _, _ => by simp [assumeL, sumLo, sumHi, sumOv]
  | k :: ks, hk, ht => by
      have ⟨k1, k2⟩ : SignOk k ∧ SignOks ks := by simpa [SignOks] using hk
      have ⟨t1, t2⟩ : Total I σ k ∧ TotalL I σ ks := by simpa [TotalL] using ht
      have he := exact I σ k k1 t1
      have ⟨ih1, ih2⟩ := exactL I σ s hs ks k2 t2
      simp only [assumeL, sumLo, sumHi, sumOv, sLo, sHi, he, Bnd.pt, ih1, ih2]
      rcases hs with rfl | rfl <;> simp <;> omega
end

/-! ### well-formedness of computed intervals -/

def IWf (I : Interp) : Prop := ∀ i b, I i = some b → b.wf

mutual
def DeclWf : P → Prop
  | .leaf _ b => b.wf
  | .node _ b _ _ ks _ => b.wf ∧ DeclWfL ks
def DeclWfL : List P → Prop
  | [] => True
  | k :: ks => DeclWf k ∧ DeclWfL ks
end

theorem getD_wf (I : Interp) (hI : IWf I) (i) (b : Bnd) (hb : b.wf) : ((I i).getD b).wf := by
  cases h : I i with
  | none => simpa [h] using hb
  | some b' => simpa [h] using hI i b' h

theorem thr_wf (s v ks) (h : sumLo s ks ≤ sumHi s ks) : (thr s v ks).wf := by
  unfold thr Bnd.wf; simp only; split <;> split <;> omega

mutual
theorem assume_wf (I) (hI : IWf I) : ∀ p, SignOk p → DeclWf p → (assume I p).bnd.wf
  | .leaf i b, _, h => by
      have hb : b.wf := by simpa [DeclWf] using h
      simpa [assume, bnd] using getD_wf I hI i b hb
  | .node i b s v ks m, hs, h => by
      have ⟨hs1, hs2⟩ : (s = 1 ∨ s = -1) ∧ SignOks ks := by simpa [SignOk] using hs
      have ⟨hb, hks⟩ : b.wf ∧ DeclWfL ks := by simpa [DeclWf] using h
      simp only [assume]
      split
      · simpa [bnd] using getD_wf I hI i b hb
      · simp only [bnd]
        exact thr_wf s v _ (assumeL_wf I hI s hs1 ks hs2 hks)
theorem assumeL_wf (I) (hI : IWf I) (s : Int) (hs : s = 1 ∨ s = -1) : ∀ ks, SignOks ks → DeclWfL ks →
    sumLo s (assumeL I ks) ≤ sumHi s (assumeL I ks)
  | [], _, _ => by simp [assumeL, sumLo, sumHi]
  | k :: ks, hk, h => by
      have ⟨k1, k2⟩ : SignOk k ∧ SignOks ks := by simpa [SignOks] using hk
      have ⟨h1, h2⟩ : DeclWf k ∧ DeclWfL ks := by simpa [DeclWfL] using h
      have a := assume_wf I hI k k1 h1
      have b := assumeL_wf I hI s hs ks k2 h2
      simp only [assumeL, sumLo, sumHi, sLo, sHi]
      unfold Bnd.wf at a
      rcases hs with rfl | rfl <;> simp <;> omega
end

/-! ### monotonicity: refining the interpretation shrinks every interval -/
mutual
def Refines (A J : Interp) : P → Prop
  | .leaf i b => ((J i).getD b).sub ((A i).getD b)
  | .node i _ _ _ ks _ => J i = A i ∧ RefinesL A J ks
def RefinesL (A J : Interp) : List P → Prop
  | [] => True
  | k :: ks => Refines A J k ∧ RefinesL A J ks
end

theorem thr_sub (s v : Int) (k1 k2 : List P) (h1 : sumLo s k2 ≤ sumLo s k1) (h2 : sumHi s k1 ≤ sumHi s k2) :
    (thr s v k1).sub (thr s v k2) := by
  unfold thr Bnd.sub; simp only
  constructor <;> split <;> split <;> omega

mutual
theorem mono (A J) : ∀ p, SignOk p → Refines A J p → ((assume J p).bnd).sub (assume A p).bnd
  | .leaf i b, _, h => by simpa [assume, bnd, Refines] using h
  | .node i b s v ks m, hs, h => by
      have ⟨hs1, hs2⟩ : (s = 1 ∨ s = -1) ∧ SignOks ks := by simpa [SignOk] using hs
      have ⟨h1, h2⟩ : J i = A i ∧ RefinesL A J ks := by simpa [Refines] using h
      have ⟨m1, m2⟩ := monoL A J s hs1 ks hs2 h2
      simp only [assume, h1]
      split
      · simp [bnd, Bnd.sub]
      · simp only [bnd]; exact thr_sub s v _ _ m1 m2
theorem monoL (A J) (s : Int) (hs : s = 1 ∨ s = -1) : ∀ ks, SignOks ks → RefinesL A J ks →
    sumLo s (assumeL A ks) ≤ sumLo s (assumeL J ks) ∧ sumHi s (assumeL J ks) ≤ sumHi s (assumeL A ks)
  | [], _, _ => by simp [assumeL, sumLo, sumHi]
  | k :: ks, hk, h => by
      have ⟨k1, k2⟩ : SignOk k ∧ SignOks ks := by simpa [SignOks] using hk
      have ⟨h1, h2⟩ : Refines A J k ∧ RefinesL A J ks := by simpa [RefinesL] using h
      have a := mono A J k k1 h1
      have ⟨b1, b2⟩ := monoL A J s hs ks k2 h2
      simp only [assumeL, sumLo, sumHi, sLo, sHi]
      unfold Bnd.sub at a
      rcases hs with rfl | rfl <;> simp <;> omega
end

end P
end Puan
