/-
  Helper lemmas for `negate`: sums are invariant under the sorting the constructor
  performs; the negated compound children sum to (#compounds − their sum).
-/
import Puan.Model.Build
import Puan.Lemmas.Eval
namespace Puan
namespace P

theorem sumPt_perm (σ) {l1 l2 : List P} (h : l1.Perm l2) : sumPt σ l1 = sumPt σ l2 := by
  induction h with
  | nil => rfl
  | cons x _ ih => simp [sumPt, ih]
  | swap x y l => simp [sumPt]; omega
  | trans _ _ ih1 ih2 => exact ih1.trans ih2

theorem sortById_perm (l : List P) : (sortById l).Perm l := List.mergeSort_perm l _

theorem sumPt_sort (σ) (l : List P) : sumPt σ (sortById l) = sumPt σ l := sumPt_perm σ (sortById_perm l)

theorem sumPt_append (σ) (a b : List P) : sumPt σ (a ++ b) = sumPt σ a + sumPt σ b := by
  induction a with
  | nil => simp [sumPt]
  | cons k ks ih => simp [sumPt, ih]; omega

def atoms (ks : List P) : List P := ks.filter (·.isLeaf)
def comps (ks : List P) : List P := ks.filter (fun k => !k.isLeaf)

theorem sumPt_split (σ) : ∀ ks : List P, sumPt σ ks = sumPt σ (comps ks) + sumPt σ (atoms ks)
  | [] => by simp [comps, atoms, sumPt]
  | k :: ks => by
      have ih := sumPt_split σ ks
      cases k with
      | leaf i b => simp [comps, atoms, isLeaf, sumPt] at *; omega
      | node i b s v ks' m => simp [comps, atoms, isLeaf, sumPt] at *; omega

theorem evalPt01 (σ) (i b s v ks m) : evalPt σ (.node i b s v ks m) = 0 ∨ evalPt σ (.node i b s v ks m) = 1 := by
  simp only [evalPt]; split <;> simp

theorem InBs_iff (σ) : ∀ ks : List P, InBs σ ks ↔ ∀ k ∈ ks, InB σ k
  | [] => by simp [InBs]
  | k :: ks => by simp [InBs, InBs_iff σ ks]

theorem InBs_perm (σ) {l1 l2 : List P} (h : l1.Perm l2) : InBs σ l1 ↔ InBs σ l2 := by
  simp only [InBs_iff]; exact ⟨fun H k hk => H k (h.mem_iff.2 hk), fun H k hk => H k (h.mem_iff.1 hk)⟩

theorem SignOks_perm {l1 l2 : List P} (h : l1.Perm l2) : SignOks l1 ↔ SignOks l2 := by
  simp only [SignOks_iff]; exact ⟨fun H k hk => H k (h.mem_iff.2 hk), fun H k hk => H k (h.mem_iff.1 hk)⟩

theorem leaves_nonneg (σ) : ∀ as : List P, (∀ a ∈ as, InB σ a) → (∀ a ∈ as, a.isLeaf = true ∧ 0 ≤ a.bnd.lo) →
    0 ≤ sumPt σ as
  | [], _, _ => by simp [sumPt]
  | a :: as, hb, h => by
      have ih := leaves_nonneg σ as (fun x hx => hb x (by simp [hx])) (fun x hx => h x (by simp [hx]))
      have ha := h a (by simp)
      have hba := hb a (by simp)
      cases a with
      | leaf i b =>
          have h1 : b.lo ≤ σ i ∧ σ i ≤ b.hi := by simpa [InB] using hba
          have h2 : 0 ≤ b.lo := by simpa [bnd] using ha.2
          simp only [sumPt, evalPt]; omega
      | node i b s v ks m => simp [isLeaf] at ha

theorem wrap_sum (σ) : ∀ as : List P, (∀ a ∈ as, InB σ a) →
    (∀ a ∈ as, a.isLeaf = true ∧ a.bnd.lo = 0 ∧ a.bnd.hi = 1) →
    sumPt σ (as.map (fun a => negGroup [a])) = as.length - sumPt σ as
  | [], _, _ => by simp [sumPt]
  | a :: as, hb, h => by
      have ih := wrap_sum σ as (fun x hx => hb x (by simp [hx])) (fun x hx => h x (by simp [hx]))
      have ha := h a (by simp)
      have hba := hb a (by simp)
      cases a with
      | leaf i b =>
          have hb' : b.lo = 0 ∧ b.hi = 1 := by simpa [bnd] using ha.2
          have : b.lo ≤ σ i ∧ σ i ≤ b.hi := by simpa [InB] using hba
          have h01 : σ i = 0 ∨ σ i = 1 := by omega
          simp only [List.map_cons, sumPt, List.length_cons]
          rw [ih]
          rcases h01 with e | e <;> simp [negGroup, evalPt, sumPt, e] <;> omega
      | node i b s v ks m => exact absurd ha.1 (by simp [isLeaf])

theorem sum_nonneg_nodes (σ) : ∀ ks : List P, (∀ k ∈ ks, k.isLeaf = false) → 0 ≤ sumPt σ ks ∧ sumPt σ ks ≤ ks.length
  | [], _ => by simp [sumPt]
  | k :: ks, h => by
      have ih := sum_nonneg_nodes σ ks (fun x hx => h x (by simp [hx]))
      have hk := h k (by simp)
      cases k with
      | leaf i b => simp [isLeaf] at hk
      | node i b s v ks' m =>
          have := evalPt01 σ i b s v ks' m
          simp only [sumPt, List.length_cons]; omega

theorem sumPt_sortPairs (σ) (l : List (String × P)) :
    sumPt σ ((sortPairs l).map (·.2)) = sumPt σ (l.map (·.2)) :=
  sumPt_perm σ ((List.mergeSort_perm l _).map _)

theorem atoms_sort_perm (ks : List P) : (atoms (sortById ks)).Perm (atoms ks) :=
  (sortById_perm ks).filter _

end P
end Puan
