/-
  Negation under `evaluate`'s node-fixing rule: the point semantics `evalOv` with an empty dictionary (`eF`), where a node
  whose own variable has constant bounds takes that constant.  The lemmas of Lemmas/Negate.lean, for this semantics.
-/
import Puan.Lemmas.Negate
namespace Puan
namespace P

/-- `evaluate` on a total leaf assignment, nodes fixed by their own bounds taking that constant -/
abbrev eF (σ : String → Int) (p : P) : Int := evalOv (fun _ => none) σ p
abbrev sF (σ : String → Int) (ks : List P) : Int := sumOv (fun _ => none) σ ks

mutual
/-- fixed nodes are fixed to 0 or 1, and a node with a generated id is never fixed (its variable is the default (0,1)) -/
def FixOk : P → Prop
  | .leaf .. => True
  | .node _ b _ _ ks m => (b.lo = b.hi → (b.lo = 0 ∨ b.lo = 1) ∧ m.gen = false) ∧ FixOks ks
def FixOks : List P → Prop
  | [] => True
  | k :: ks => FixOk k ∧ FixOks ks
end

theorem FixOks_iff : ∀ ks : List P, FixOks ks ↔ ∀ k ∈ ks, FixOk k
  | [] => by simp [FixOks]
  | k :: ks => by simp [FixOks, FixOks_iff ks]

theorem sF_perm (σ) {l1 l2 : List P} (h : l1.Perm l2) : sF σ l1 = sF σ l2 := by
  induction h with
  | nil => rfl
  | cons x _ ih => simp only [sF, sumOv] at *; rw [ih]
  | swap x y l => simp only [sF, sumOv]; omega
  | trans _ _ ih1 ih2 => exact ih1.trans ih2

theorem sF_sort (σ) (l : List P) : sF σ (sortById l) = sF σ l := sF_perm σ (sortById_perm l)

theorem sF_append (σ) (a b : List P) : sF σ (a ++ b) = sF σ a + sF σ b := by
  induction a with
  | nil => simp [sF, sumOv]
  | cons k ks ih => simp only [sF, List.cons_append, sumOv] at *; omega

theorem sF_split (σ) : ∀ ks : List P, sF σ ks = sF σ (comps ks) + sF σ (atoms ks)
  | [] => by simp [comps, atoms, sF, sumOv]
  | k :: ks => by
      have ih := sF_split σ ks
      cases k with
      | leaf i b => simp [comps, atoms, isLeaf, sF, sumOv] at *; omega
      | node i b s v ks' m => simp [comps, atoms, isLeaf, sF, sumOv] at *; omega

/-- over leaves the two semantics agree -/
theorem sF_leaves (σ) : ∀ as : List P, (∀ a ∈ as, a.isLeaf = true) → sF σ as = sumPt σ as
  | [], _ => by simp [sF, sumOv, sumPt]
  | a :: as, h => by
      have ih := sF_leaves σ as (fun x hx => h x (by simp [hx]))
      have ha := h a (by simp)
      cases a with
      | leaf i b => simp only [sF, sumOv, evalOv, sumPt, evalPt] at *; rw [ih]
      | node => simp [isLeaf] at ha

/-- a node that is not fixed, over leaves only -/
theorem eF_free_leafkids (σ) (i b s v) (ks : List P) (m) (hb : ¬ b.lo = b.hi) (hl : ∀ a ∈ ks, a.isLeaf = true) :
    eF σ (.node i b s v ks m) = evalPt σ (.node i b s v ks m) := by
  have := sF_leaves σ ks hl
  simp only [eF, evalOv, Option.getD_none, hb, if_false, evalPt] at *
  simp only [sF] at this; rw [this]

/-- a node that is not fixed is computed from its children -/
theorem eF_free (σ) (i) (b : Bnd) (s v) (ks : List P) (m) (h : ¬ b.lo = b.hi) :
    eF σ (.node i b s v ks m) = if s * sF σ ks ≥ v then 1 else 0 := by
  simp only [eF, sF, evalOv, Option.getD_none, h, if_false]

theorem sF_single (σ) (k : P) : sF σ [k] = eF σ k := by simp [sF, eF, sumOv]

theorem eF01 (σ) (i b s v ks m) (h : FixOk (.node i b s v ks m)) :
    eF σ (.node i b s v ks m) = 0 ∨ eF σ (.node i b s v ks m) = 1 := by
  simp only [FixOk] at h
  simp only [eF, evalOv, Option.getD_none]
  split
  · rename_i hc; exact (h.1 hc).1
  · split <;> simp

theorem sF_nodes_range (σ) : ∀ ks : List P, (∀ k ∈ ks, k.isLeaf = false) → (∀ k ∈ ks, FixOk k) →
    0 ≤ sF σ ks ∧ sF σ ks ≤ ks.length
  | [], _, _ => by simp [sF, sumOv]
  | k :: ks, h, hf => by
      have ih := sF_nodes_range σ ks (fun x hx => h x (by simp [hx])) (fun x hx => hf x (by simp [hx]))
      have hk := h k (by simp)
      cases k with
      | leaf i b => simp [isLeaf] at hk
      | node i b s v ks' m =>
          have := eF01 σ i b s v ks' m (hf _ (by simp))
          simp only [sF, sumOv, List.length_cons] at *
          simp only [eF] at this
          omega

theorem sF_sortPairs (σ) (l : List (String × P)) : sF σ ((sortPairs l).map (·.2)) = sF σ (l.map (·.2)) :=
  sF_perm σ ((List.mergeSort_perm l _).map _)

/-- the wrapped atoms `negGroup [a]` are free nodes over one leaf -/
theorem sF_wrap (σ) : ∀ as : List P, (∀ a ∈ as, a.isLeaf = true) →
    sF σ (as.map (fun a => negGroup [a])) = sumPt σ (as.map (fun a => negGroup [a]))
  | [], _ => by simp [sF, sumOv, sumPt]
  | a :: as, h => by
      have ih := sF_wrap σ as (fun x hx => h x (by simp [hx]))
      have ha := h a (by simp)
      have e := eF_free_leafkids σ (genId [a] 0 (some (-1))) ⟨0, 1⟩ (-1) 0 [a] { gen := true } (by simp) (by simpa using ha)
      simp only [List.map_cons, sF, sumOv, sumPt, negGroup, eF] at *
      rw [e, ih]

end P
end Puan
