/-
  Helper lemmas for C08 (`reduce`): the bounds `reduce` computes are those of evaluating on
  the empty interpretation; constant children can be folded into the threshold.
-/
import Puan.Model.Build
import Puan.Lemmas.Assume
namespace Puan
namespace P

/-- the empty interpretation -/
def E : Interp := fun _ => none

theorem sumLo_append (s) (a b : List P) : sumLo s (a ++ b) = sumLo s a + sumLo s b := by
  induction a with
  | nil => simp [sumLo]
  | cons k ks ih => simp [sumLo, ih]; omega
theorem sumHi_append (s) (a b : List P) : sumHi s (a ++ b) = sumHi s a + sumHi s b := by
  induction a with
  | nil => simp [sumHi]
  | cons k ks ih => simp [sumHi, ih]; omega

theorem assumeL_append (I : Interp) (a b : List P) : assumeL I (a ++ b) = assumeL I a ++ assumeL I b := by
  simp [assumeL_eq_map]

def leavesOf (ks : List P) : List P := ks.filter (·.isLeaf)

theorem isConst_iff (b : Bnd) : b.isConst = true ↔ b.lo = b.hi := by simp [Bnd.isConst]

mutual
/-- the bounds of the reduced model are those of evaluating the model on nothing -/
theorem reduce_bnd : ∀ p, (reduce p).bnd = (assume E p).bnd
  | .leaf i b => by simp [reduce, assume, E, bnd]
  | .node i b s v ks m => by
      have hL := reduceComps_sums s ks
      simp only [reduce, assume, E, Option.getD_none]
      by_cases hc : b.lo = b.hi
      · simp [(isConst_iff b).2 hc, hc, bnd]
      · have hc' : b.isConst = false := by
          cases h : b.isConst with
          | false => rfl
          | true => exact absurd ((isConst_iff b).1 h) hc
        have hthr : thr s v (reduceComps ks ++ List.filter (fun x => x.isLeaf) ks) = thr s v (assumeL E ks) := by
          simp only [thr]
          have h1 := hL.1; have h2 := hL.2
          simp only [leavesOf] at h1 h2
          rw [h1, h2]
        simp only [hc', hc, if_false, Bool.false_eq_true]
        split <;> simp [bnd, hthr]
theorem reduceComps_sums (s : Int) : ∀ ks,
    sumLo s (reduceComps ks ++ leavesOf ks) = sumLo s (assumeL E ks) ∧
    sumHi s (reduceComps ks ++ leavesOf ks) = sumHi s (assumeL E ks)
  | [] => by simp [reduceComps, leavesOf, assumeL, sumLo, sumHi]
  | .leaf i b :: ks => by
      have ih := reduceComps_sums s ks
      simp only [reduceComps, leavesOf, List.filter_cons, isLeaf, if_true, assumeL, assume, E,
        Option.getD_none, sumLo_append, sumHi_append, sumLo, sumHi, bnd] at *
      omega
  | .node i b s' v ks' m :: ks => by
      have ih := reduceComps_sums s ks
      have hb := reduce_bnd (.node i b s' v ks' m)
      simp only [reduceComps, leavesOf, List.filter_cons, isLeaf, Bool.false_eq_true, if_false, assumeL,
        List.cons_append, sumLo, sumHi, hb] at *
      omega
end

/-- a reduced proposition with constant bounds is a bare variable -/
theorem reduce_const_isLeaf : ∀ p, (reduce p).bnd.isConst = true → (reduce p).isLeaf = true
  | .leaf i b, _ => by simp [reduce, isLeaf]
  | .node i b s v ks m, h => by
      simp only [reduce] at h ⊢
      split
      · simp [isLeaf]
      · rename_i hb
        simp only [hb, if_false, Bool.false_eq_true] at h
        split
        · simp [isLeaf]
        · rename_i hn
          simp only [hn, if_false, Bool.false_eq_true, bnd] at h

theorem reduce_id : ∀ p, (reduce p).id = p.id
  | .leaf i b => by simp [reduce, id]
  | .node i b s v ks m => by
      simp only [reduce]; split
      · simp [id]
      · split <;> simp [id]

/-- folding the constant children into the threshold: interval sums split into the
    non-constant children and the constants' contribution -/
theorem const_split (I : Interp) (s : Int) (hs : s = 1 ∨ s = -1) : ∀ l : List P,
    (∀ k ∈ l, k.bnd.isConst = true → (assume I k).bnd = k.bnd) →
    sumLo s (assumeL I l) = sumLo s (assumeL I (l.filter (fun k => !k.bnd.isConst))) + constSum l * s ∧
    sumHi s (assumeL I l) = sumHi s (assumeL I (l.filter (fun k => !k.bnd.isConst))) + constSum l * s
  | [], _ => by simp [assumeL, sumLo, sumHi, constSum]
  | k :: l, h => by
      have ih := const_split I s hs l (fun k' hk' => h k' (by simp [hk']))
      cases hc : k.bnd.isConst with
      | true =>
          have hk := h k (by simp) hc
          have hlh : k.bnd.lo = k.bnd.hi := (isConst_iff _).1 hc
          simp only [List.filter_cons, hc, Bool.not_true, Bool.false_eq_true, if_false, assumeL, sumLo, sumHi,
            constSum, if_true, hk, sLo, sHi]
          rcases hs with rfl | rfl <;> simp <;> omega
      | false =>
          simp only [List.filter_cons, hc, Bool.not_false, if_true, assumeL, sumLo, sumHi, constSum,
            Bool.false_eq_true, if_false, Int.zero_add]
          omega

end P
end Puan
