/-
  `n_row_combinations`: the restrictions of the in-box points to a row's non-zero columns,
  enumerated without duplicates; their number is the product the code reports.
-/
import Puan.Lemmas.Poly
namespace Puan
namespace Poly

/-- the integers lo, lo+1, …, hi -/
def rangeI (lo hi : Int) : List Int := (List.range (hi - lo + 1).toNat).map (fun (k : Nat) => lo + (k : Int))

/-- a point restricted to the non-zero columns of a row -/
def restr : List Int → List Int → List (Option Int)
  | c :: cs, x :: xs => (if c != 0 then some x else none) :: restr cs xs
  | _, _ => []

def colOpts (c : Int) (b : Bnd) : List (Option Int) := if c != 0 then (rangeI b.lo b.hi).map some else [none]

/-- all restrictions, column by column -/
def restrPts : List Int → List Bnd → List (List (Option Int))
  | c :: cs, b :: bs => (colOpts c b).flatMap (fun o => (restrPts cs bs).map (o :: ·))
  | _, _ => [[]]

theorem mem_rangeI (lo hi x : Int) : x ∈ rangeI lo hi ↔ lo ≤ x ∧ x ≤ hi := by
  unfold rangeI
  simp only [List.mem_map, List.mem_range]
  constructor
  · rintro ⟨k, hk, rfl⟩; omega
  · intro ⟨h1, h2⟩
    exact ⟨(x - lo).toNat, by omega, by omega⟩

theorem length_rangeI (lo hi : Int) (h : lo ≤ hi) : ((rangeI lo hi).length : Int) = hi - lo + 1 := by
  unfold rangeI; simp; omega

theorem nodup_rangeI (lo hi : Int) : (rangeI lo hi).Nodup := by
  unfold rangeI
  generalize (hi - lo + 1).toNat = n
  induction n with
  | zero => simp
  | succ n ih =>
      rw [List.range_succ, List.map_append, List.nodup_append]
      refine ⟨ih, by simp, ?_⟩
      intro a ha b hb
      simp only [List.mem_map, List.mem_range] at ha
      simp at hb
      obtain ⟨k, hk, rfl⟩ := ha
      subst hb; omega

theorem nodup_colOpts (c : Int) (b : Bnd) : (colOpts c b).Nodup := by
  unfold colOpts
  split
  · have := nodup_rangeI b.lo b.hi
    generalize rangeI b.lo b.hi = l at this
    induction l with
    | nil => simp
    | cons x xs ih =>
        have ⟨h1, h2⟩ := List.nodup_cons.1 this
        simp only [List.map_cons, List.nodup_cons, List.mem_map, not_exists, not_and]
        exact ⟨fun y hy hxy => h1 (by simp at hxy; rw [← hxy]; exact hy), ih h2⟩
  · simp

theorem length_colOpts (c : Int) (b : Bnd) (h : b.lo ≤ b.hi) :
    ((colOpts c b).length : Int) = if c != 0 then b.hi - b.lo + 1 else 1 := by
  unfold colOpts
  split
  · simp [length_rangeI b.lo b.hi h]
  · simp

theorem length_flatMap_map {α β} (f : α → β → β) : ∀ (os : List α) (l : List β),
    (os.flatMap (fun o => l.map (f o))).length = os.length * l.length
  | [], _ => by simp
  | o :: os, l => by
      simp only [List.flatMap_cons, List.length_append, List.length_map, length_flatMap_map f os l, List.length_cons]
      rw [Nat.add_mul, Nat.one_mul, Nat.add_comm]

/-- the enumeration has exactly as many entries as `n_row_combinations` reports … -/
theorem restrPts_length : ∀ (cs : List Int) (bs : List Bnd), WfB bs → cs.length = bs.length →
    ((restrPts cs bs).length : Int) = nComb cs bs
  | [], [], _, _ => by simp [restrPts, nComb]
  | [], _ :: _, _, h => by simp at h
  | _ :: _, [], _, h => by simp at h
  | c :: cs, b :: bs, hw, hl => by
      have ih := restrPts_length cs bs hw.2 (by simpa using hl)
      simp only [restrPts, nComb, length_flatMap_map (fun (o : Option Int) r => o :: r)]
      rw [Int.natCast_mul, ih, length_colOpts c b hw.1]

/-- … none of them twice … -/
theorem restrPts_nodup : ∀ (cs : List Int) (bs : List Bnd), (restrPts cs bs).Nodup
  | [], _ => by simp [restrPts]
  | _ :: _, [] => by simp [restrPts]
  | c :: cs, b :: bs => by
      have ih := restrPts_nodup cs bs
      simp only [restrPts]
      have hopts := nodup_colOpts c b
      generalize colOpts c b = os at hopts
      induction os with
      | nil => simp
      | cons o os ihos =>
          have ⟨ho1, ho2⟩ := List.nodup_cons.1 hopts
          simp only [List.flatMap_cons]
          refine List.nodup_append.2 ⟨?_, ihos ho2, ?_⟩
          · -- consing a fixed head is injective
            generalize restrPts cs bs = l at ih
            induction l with
            | nil => simp
            | cons x xs ihx =>
                have ⟨h1, h2⟩ := List.nodup_cons.1 ih
                simp only [List.map_cons, List.nodup_cons, List.mem_map, not_exists, not_and]
                exact ⟨fun y hy hxy => h1 (by simp at hxy; rw [← hxy]; exact hy), ihx h2⟩
          · intro r hr r' hr' hrr
            subst hrr
            obtain ⟨t, _, rfl⟩ := List.mem_map.1 hr
            obtain ⟨o', ho', hr2⟩ := List.mem_flatMap.1 hr'
            obtain ⟨t', _, heq⟩ := List.mem_map.1 hr2
            simp at heq
            exact ho1 (by rw [← heq.1]; exact ho')

/-- … and they are exactly the restrictions of the in-box points to the row's non-zero columns. -/
theorem mem_restrPts : ∀ (cs : List Int) (bs : List Bnd), WfB bs → cs.length = bs.length →
    ∀ r, r ∈ restrPts cs bs ↔ ∃ xs, InBox xs bs ∧ restr cs xs = r
  | [], [], _, _, r => by
      simp only [restrPts, List.mem_singleton]
      constructor
      · rintro rfl; exact ⟨[], by simp [InBox], by simp [restr]⟩
      · rintro ⟨xs, hb, rfl⟩
        cases xs with
        | nil => simp [restr]
        | cons x xs => simp [InBox] at hb
  | [], _ :: _, _, h, _ => by simp at h
  | _ :: _, [], _, h, _ => by simp at h
  | c :: cs, b :: bs, hw, hl, r => by
      have ih := mem_restrPts cs bs hw.2 (by simpa using hl)
      simp only [restrPts, List.mem_flatMap, List.mem_map]
      constructor
      · rintro ⟨o, ho, t, ht, rfl⟩
        obtain ⟨xs, hxs, rfl⟩ := (ih t).1 ht
        unfold colOpts at ho
        by_cases hc : (c != 0) = true
        · simp only [hc, if_true, List.mem_map] at ho
          obtain ⟨x, hx, rfl⟩ := ho
          have := (mem_rangeI b.lo b.hi x).1 hx
          exact ⟨x :: xs, by simp [InBox, this, hxs], by simp [restr, hc]⟩
        · have hc' : (c != 0) = false := by simpa using hc
          simp only [hc', Bool.false_eq_true, if_false, List.mem_singleton] at ho
          subst ho
          exact ⟨b.lo :: xs, by simp [InBox, hw.1, hxs], by simp [restr, hc]⟩
      · rintro ⟨xs, hb, rfl⟩
        cases xs with
        | nil => simp [InBox] at hb
        | cons x xs =>
            have ⟨h1, h2⟩ : (b.lo ≤ x ∧ x ≤ b.hi) ∧ InBox xs bs := by simpa [InBox] using hb
            refine ⟨if c != 0 then some x else none, ?_, restr cs xs, (ih _).2 ⟨xs, h2, rfl⟩, by simp [restr]⟩
            unfold colOpts
            by_cases hc : (c != 0) = true
            · simp only [hc, if_true, List.mem_map]
              exact ⟨x, (mem_rangeI b.lo b.hi x).2 h1, rfl⟩
            · simp [hc]

end Poly
end Puan
