/-
  Helper lemmas for the big-M encoding: the row predicate over the tree, its
  equivalence with the executable row list, feasibility of the evaluated extension,
  and soundness for solver-safe trees.
-/
import Puan.Model.Encode
namespace Puan
namespace P

/-- column sum of the children under a column assignment -/
def colSum (x : String → Int) : List P → Int
  | [] => 0
  | k :: ks => x k.id + colSum x ks

/-- the big-M row of one node: s·Σ x(kid) + (m − v)·x(id) ≥ m -/
def rowSat (x : String → Int) (i : String) (s v : Int) (ks : List P) : Prop :=
  s * colSum x ks + (minSum s ks - v) * x i ≥ minSum s ks

mutual
def RowsSat (x : String → Int) : P → Prop
  | .leaf .. => True
  | .node i _ s v ks _ => rowSat x i s v ks ∧ RowsSatL x ks
def RowsSatL (x : String → Int) : List P → Prop
  | [] => True
  | k :: ks => RowsSat x k ∧ RowsSatL x ks
end

/-- rows with the top node asserted -/
def RowsSatActive (x : String → Int) : P → Prop
  | .leaf .. => True
  | .node _ _ s v ks _ => s * colSum x ks ≥ v ∧ RowsSatL x ks

mutual
/-- `x` equals `σ` on leaves and the evaluated truth value on every compound sub-node -/
def Agrees (x σ : String → Int) : P → Prop
  | .leaf i _ => x i = σ i
  | .node i b s v ks m => x i = evalPt σ (.node i b s v ks m) ∧ AgreesL x σ ks
def AgreesL (x σ : String → Int) : List P → Prop
  | [] => True
  | k :: ks => Agrees x σ k ∧ AgreesL x σ ks
end

mutual
/-- every column within its variable's bounds (compound columns within their own bounds) -/
def Box (x : String → Int) : P → Prop
  | .leaf i b => b.lo ≤ x i ∧ x i ≤ b.hi
  | .node i b _ _ ks _ => (b.lo ≤ x i ∧ x i ≤ b.hi) ∧ BoxL x ks
def BoxL (x : String → Int) : List P → Prop
  | [] => True
  | k :: ks => Box x k ∧ BoxL x ks
end

theorem lhs_append (x : String → Int) (a b : List (String × Int)) :
    Row.lhs x (a ++ b) = Row.lhs x a + Row.lhs x b := by
  induction a with
  | nil => simp [Row.lhs]
  | cons p r ih => obtain ⟨i, c⟩ := p; simp [Row.lhs, ih]; omega

theorem lhs_kidCoefs (x : String → Int) (s : Int) : ∀ ks, Row.lhs x (kidCoefs s ks) = s * colSum x ks
  | [] => by simp [kidCoefs, Row.lhs, colSum]
  | k :: ks => by simp [kidCoefs, Row.lhs, colSum, lhs_kidCoefs x s ks, Int.mul_add]

theorem rowOf_sat (x : String → Int) (i s v ks) : (rowOf i s v ks).sat x ↔ rowSat x i s v ks := by
  simp [Row.sat, rowOf, rowSat, lhs_append, lhs_kidCoefs, Row.lhs]

theorem topRow_sat (x : String → Int) (s v ks) : (topRow s v ks).sat x ↔ s * colSum x ks ≥ v := by
  simp [Row.sat, topRow, lhs_kidCoefs]

mutual
theorem rows_spec (x : String → Int) : ∀ p, (∀ r ∈ rows p, r.sat x) ↔ RowsSat x p
  | .leaf .. => by simp [rows, RowsSat]
  | .node i b s v ks m => by
      simp only [rows, RowsSat, List.mem_cons, forall_eq_or_imp, rowOf_sat, rowsL_spec x ks]
theorem rowsL_spec (x : String → Int) : ∀ ks, (∀ r ∈ rowsL ks, r.sat x) ↔ RowsSatL x ks
  | [] => by simp [rowsL, RowsSatL]
  | k :: ks => by
      simp only [rowsL, RowsSatL, List.mem_append, or_imp, forall_and, rows_spec x k, rowsL_spec x ks]
end

/-! ### feasibility of the evaluated extension (C01) -/

theorem evalPt_node_range (σ) (i b s v ks m) :
    0 ≤ evalPt σ (.node i b s v ks m) ∧ evalPt σ (.node i b s v ks m) ≤ 1 := by
  simp only [evalPt]; split <;> omega

theorem minSum_le (σ) (s : Int) (hs : s = 1 ∨ s = -1) : ∀ ks, InBs σ ks → Free01L ks →
    minSum s ks ≤ s * sumPt σ ks
  | [], _, _ => by simp [minSum, sumPt]
  | k :: ks, hb, hf => by
      have ⟨hk, hks⟩ : InB σ k ∧ InBs σ ks := by simpa [InBs] using hb
      have ⟨fk, fks⟩ : Free01 k ∧ Free01L ks := by simpa [Free01L] using hf
      have ih := minSum_le σ s hs ks hks fks
      have hr : k.bnd.lo ≤ evalPt σ k ∧ evalPt σ k ≤ k.bnd.hi := by
        cases k with
        | leaf i b => simpa [evalPt, bnd, InB] using hk
        | node i b s' v' ks' m' =>
            have hb01 : (b.lo = 0 ∧ b.hi = 1) ∧ Free01L ks' := by simpa [Free01] using fk
            have := evalPt_node_range σ i b s' v' ks' m'
            simp only [bnd]; omega
      simp only [minSum, sumPt, minTerm]
      rcases hs with rfl | rfl <;> simp <;> omega

theorem agrees_id (x σ) : ∀ p, Agrees x σ p → x p.id = evalPt σ p
  | .leaf i b, h => by simpa [Agrees, id, evalPt] using h
  | .node i b s v ks m, h => by
      have h' : x i = evalPt σ (.node i b s v ks m) ∧ AgreesL x σ ks := by simpa [Agrees] using h
      simpa [id] using h'.1

theorem colSum_eq (x σ) : ∀ ks, AgreesL x σ ks → colSum x ks = sumPt σ ks
  | [], _ => by simp [colSum, sumPt]
  | k :: ks, h => by
      have ⟨hk, hks⟩ : Agrees x σ k ∧ AgreesL x σ ks := by simpa [AgreesL] using h
      simp [colSum, sumPt, agrees_id x σ k hk, colSum_eq x σ ks hks]

mutual
theorem rowsSat_of_agrees (x σ) : ∀ p, Agrees x σ p → InB σ p → SignOk p → Free01 p → RowsSat x p
  | .leaf .., _, _, _, _ => by simp [RowsSat]
  | .node i b s v ks m, ha, hb, hs, hf => by
      have ⟨hx, hks⟩ : x i = evalPt σ (.node i b s v ks m) ∧ AgreesL x σ ks := by simpa [Agrees] using ha
      have hb' : InBs σ ks := by simpa [InB] using hb
      have ⟨hs1, hs2⟩ : (s = 1 ∨ s = -1) ∧ SignOks ks := by simpa [SignOk] using hs
      have ⟨_, hf2⟩ : (b.lo = 0 ∧ b.hi = 1) ∧ Free01L ks := by simpa [Free01] using hf
      simp only [RowsSat]
      refine ⟨?_, rowsSatL_of_agrees x σ ks hks hb' hs2 hf2⟩
      have hm := minSum_le σ s hs1 ks hb' hf2
      have hc := colSum_eq x σ ks hks
      simp only [rowSat, hc, hx, evalPt]
      split <;> omega
theorem rowsSatL_of_agrees (x σ) : ∀ ks, AgreesL x σ ks → InBs σ ks → SignOks ks → Free01L ks → RowsSatL x ks
  | [], _, _, _, _ => by simp [RowsSatL]
  | k :: ks, ha, hb, hs, hf => by
      have ⟨a1, a2⟩ : Agrees x σ k ∧ AgreesL x σ ks := by simpa [AgreesL] using ha
      have ⟨b1, b2⟩ : InB σ k ∧ InBs σ ks := by simpa [InBs] using hb
      have ⟨s1, s2⟩ : SignOk k ∧ SignOks ks := by simpa [SignOks] using hs
      have ⟨f1, f2⟩ : Free01 k ∧ Free01L ks := by simpa [Free01L] using hf
      simp only [RowsSatL]
      exact ⟨rowsSat_of_agrees x σ k a1 b1 s1 f1, rowsSatL_of_agrees x σ ks a2 b2 s2 f2⟩
end

/-! ### soundness for solver-safe trees (C02) -/

theorem colSum_leaves (x) : ∀ ks : List P, (∀ k ∈ ks, k.isLeaf = true) → colSum x ks = sumPt x ks
  | [], _ => by simp [colSum, sumPt]
  | k :: ks, h => by
      have hk : k.isLeaf = true := h k (by simp)
      have ih := colSum_leaves x ks (fun k' hk' => h k' (by simp [hk']))
      cases k with
      | leaf i l => simp [colSum, sumPt, evalPt, id, ih]
      | node i b s v ks' m => simp [isLeaf] at hk

mutual
/-- a selected compound column implies the node is true on the leaf part of `x` -/
theorem sel_le_eval (x) : ∀ p, Safe p → Free01 p → Box x p → RowsSat x p → x p.id ≤ evalPt x p
  | .leaf i l, _, _, _, _ => by simp [id, evalPt]
  | .node i b s v ks m, hs, hf, hb, hr => by
      have ⟨hs1, hs2⟩ : (s = 1 ∨ (s = -1 ∧ ∀ k ∈ ks, k.isLeaf = true)) ∧ SafeL ks := by simpa [Safe] using hs
      have ⟨hf1, hf2⟩ : (b.lo = 0 ∧ b.hi = 1) ∧ Free01L ks := by simpa [Free01] using hf
      have ⟨hb1, hb2⟩ : (b.lo ≤ x i ∧ x i ≤ b.hi) ∧ BoxL x ks := by simpa [Box] using hb
      have ⟨hr1, hr2⟩ : rowSat x i s v ks ∧ RowsSatL x ks := by simpa [RowsSat] using hr
      have hle := sel_le_evalL x ks hs2 hf2 hb2 hr2
      simp only [id, evalPt]
      split
      · omega
      · simp only [rowSat] at hr1
        have : x i = 0 ∨ x i = 1 := by omega
        rcases hs1 with rfl | ⟨rfl, hl⟩
        · rcases this with h0 | h1
          · omega
          · rw [h1] at hr1; omega
        · have hc := colSum_leaves x ks hl
          rcases this with h0 | h1
          · omega
          · rw [h1, hc] at hr1; omega
theorem sel_le_evalL (x) : ∀ ks, SafeL ks → Free01L ks → BoxL x ks → RowsSatL x ks → colSum x ks ≤ sumPt x ks
  | [], _, _, _, _ => by simp [colSum, sumPt]
  | k :: ks, hs, hf, hb, hr => by
      have ⟨s1, s2⟩ : Safe k ∧ SafeL ks := by simpa [SafeL] using hs
      have ⟨f1, f2⟩ : Free01 k ∧ Free01L ks := by simpa [Free01L] using hf
      have ⟨b1, b2⟩ : Box x k ∧ BoxL x ks := by simpa [BoxL] using hb
      have ⟨r1, r2⟩ : RowsSat x k ∧ RowsSatL x ks := by simpa [RowsSatL] using hr
      have h1 := sel_le_eval x k s1 f1 b1 r1
      have h2 := sel_le_evalL x ks s2 f2 b2 r2
      simp only [colSum, sumPt]; omega
end

end P
end Puan
