/-
  Helper lemmas for the fixpoint loop of `reducable_rows_and_columns`: accumulating masks
  (`scatter`, `scatterRows`) composes reductions.
-/
import Puan.Lemmas.Reduce2
namespace Puan
namespace Poly

def countNone : List (Option Int) → Nat
  | [] => 0
  | none :: m => countNone m + 1
  | some _ :: m => countNone m

def countFalse : List Bool → Nat
  | [] => 0
  | false :: m => countFalse m + 1
  | true :: m => countFalse m

theorem keep_length {α} : ∀ (m : List (Option Int)) (l : List α), l.length = m.length → (keep m l).length = countNone m
  | [], [], _ => rfl
  | [], _ :: _, h => by simp at h
  | _ :: _, [], h => by simp at h
  | some a :: m, x :: l, h => by simpa [keep, countNone] using keep_length m l (by simpa using h)
  | none :: m, x :: l, h => by simpa [keep, countNone] using keep_length m l (by simpa using h)

theorem keepRows_length {α} : ∀ (m : List Bool) (l : List α), l.length = m.length → (keepRows m l).length = countFalse m
  | [], [], _ => rfl
  | [], _ :: _, h => by simp at h
  | _ :: _, [], h => by simp at h
  | true :: m, x :: l, h => by simpa [keepRows, countFalse] using keepRows_length m l (by simpa using h)
  | false :: m, x :: l, h => by simpa [keepRows, countFalse] using keepRows_length m l (by simpa using h)

theorem scatter_length : ∀ (f r : List (Option Int)), (scatter f r).length = f.length
  | [], _ => by simp [scatter]
  | some a :: f, r => by simp [scatter, scatter_length f r]
  | none :: f, [] => by simp [scatter, scatter_length f []]
  | none :: f, x :: r => by simp [scatter, scatter_length f r]

theorem scatterRows_length : ∀ (f r : List Bool), (scatterRows f r).length = f.length
  | [], _ => by simp [scatterRows]
  | true :: f, r => by simp [scatterRows, scatterRows_length f r]
  | false :: f, [] => by simp [scatterRows, scatterRows_length f []]
  | false :: f, x :: r => by simp [scatterRows, scatterRows_length f r]

theorem keep_scatter {α} : ∀ (f r : List (Option Int)) (l : List α), countNone f ≤ r.length →
    keep r (keep f l) = keep (scatter f r) l
  | [], r, l, _ => by
      cases r with
      | nil => simp [keep, scatter]
      | cons o r => cases o <;> simp [keep, scatter]
  | some a :: f, r, [], _ => by
      simp [keep, scatter]
  | some a :: f, r, x :: l, h => by
      simp only [keep, scatter]; exact keep_scatter f r l (by simpa [countNone] using h)
  | none :: f, [], _, h => by simp [countNone] at h
  | none :: f, o :: r, [], _ => by cases o <;> simp [keep, scatter]
  | none :: f, o :: r, x :: l, h => by
      have ih := keep_scatter f r l (by simpa [countNone] using h)
      cases o <;> simp [keep, scatter, ih]

theorem fixedSum_scatter : ∀ (f r : List (Option Int)) (cs : List Int), countNone f ≤ r.length →
    fixedSum (scatter f r) cs = fixedSum f cs + fixedSum r (keep f cs)
  | [], r, cs, _ => by
      cases r with
      | nil => simp [fixedSum, scatter]
      | cons o r => cases o <;> simp [fixedSum, scatter, keep]
  | some a :: f, r, [], _ => by
      simp only [keep, scatter, fixedSum]
      cases r with
      | nil => simp
      | cons o r => cases o <;> simp
  | some a :: f, r, c :: cs, h => by
      have ih := fixedSum_scatter f r cs (by simpa [countNone] using h)
      simp only [keep, scatter, fixedSum, ih]; omega
  | none :: f, [], _, h => by simp [countNone] at h
  | none :: f, o :: r, [], _ => by cases o <;> simp [keep, scatter, fixedSum]
  | none :: f, o :: r, c :: cs, h => by
      have ih := fixedSum_scatter f r cs (by simpa [countNone] using h)
      cases o <;> simp [keep, scatter, fixedSum, ih] <;> omega

theorem reduceRow_scatter (f r : List (Option Int)) (row : PRow) (h : countNone f ≤ r.length) :
    reduceRow r (reduceRow f row) = reduceRow (scatter f r) row := by
  simp only [reduceRow, keep_scatter f r row.cs h, fixedSum_scatter f r row.cs h, PRow.mk.injEq, and_true]
  omega

theorem agrees_scatter : ∀ (xs : List Int) (f r : List (Option Int)), Agrees xs f → Agrees (keep f xs) r →
    Agrees xs (scatter f r)
  | [], [], r, _, h => by cases r <;> simp_all [keep, scatter, Agrees]
  | [], _ :: _, _, h, _ => by simp [Agrees] at h
  | _ :: _, [], _, h, _ => by simp [Agrees] at h
  | x :: xs, some a :: f, r, h1, h2 => by
      have ⟨e, h1'⟩ : x = a ∧ Agrees xs f := by simpa [Agrees] using h1
      simp only [scatter, Agrees]
      exact ⟨e, agrees_scatter xs f r h1' (by simpa [keep] using h2)⟩
  | x :: xs, none :: f, [], _, h2 => by simp [keep, Agrees] at h2
  | x :: xs, none :: f, some a :: r, h1, h2 => by
      have h1' : Agrees xs f := by simpa [Agrees] using h1
      have ⟨e, h2'⟩ : x = a ∧ Agrees (keep f xs) r := by simpa [keep, Agrees] using h2
      simp only [scatter, Agrees]; exact ⟨e, agrees_scatter xs f r h1' h2'⟩
  | x :: xs, none :: f, none :: r, h1, h2 => by
      have h1' : Agrees xs f := by simpa [Agrees] using h1
      have h2' : Agrees (keep f xs) r := by simpa [keep, Agrees] using h2
      simp only [scatter, Agrees]; exact agrees_scatter xs f r h1' h2'

theorem agrees_of_scatter : ∀ (xs : List Int) (f r : List (Option Int)), Agrees xs (scatter f r) → Agrees xs f
  | [], [], r, _ => by simp [Agrees]
  | [], some a :: f, r, h => by simp [scatter, Agrees] at h
  | [], none :: f, [], h => by simp [scatter, Agrees] at h
  | [], none :: f, _ :: _, h => by simp [scatter, Agrees] at h
  | _ :: _, [], r, h => by simp [scatter, Agrees] at h
  | x :: xs, some a :: f, r, h => by
      have ⟨e, h'⟩ : x = a ∧ Agrees xs (scatter f r) := by simpa [scatter, Agrees] using h
      simp only [Agrees]; exact ⟨e, agrees_of_scatter xs f r h'⟩
  | x :: xs, none :: f, [], h => by
      have h' : Agrees xs (scatter f []) := by simpa [scatter, Agrees] using h
      simp only [Agrees]; exact agrees_of_scatter xs f [] h'
  | x :: xs, none :: f, some a :: r, h => by
      have ⟨_, h'⟩ : x = a ∧ Agrees xs (scatter f r) := by simpa [scatter, Agrees] using h
      simp only [Agrees]; exact agrees_of_scatter xs f r h'
  | x :: xs, none :: f, none :: r, h => by
      have h' : Agrees xs (scatter f r) := by simpa [scatter, Agrees] using h
      simp only [Agrees]; exact agrees_of_scatter xs f r h'

theorem boundsOk_scatter : ∀ (f r : List (Option Int)) (bs : List Bnd), BoundsOk f bs → BoundsOk r (keep f bs) →
    BoundsOk (scatter f r) bs
  | [], r, [], _, h => by cases r <;> simp_all [keep, scatter, BoundsOk]
  | [], _, _ :: _, h, _ => by simp [BoundsOk] at h
  | o :: _, _, [], h, _ => by cases o <;> simp [BoundsOk] at h
  | some a :: f, r, b :: bs, h1, h2 => by
      have ⟨e, h1'⟩ : (b.lo ≤ a ∧ a ≤ b.hi) ∧ BoundsOk f bs := by simpa [BoundsOk] using h1
      simp only [scatter, BoundsOk]
      exact ⟨e, boundsOk_scatter f r bs h1' (by simpa [keep] using h2)⟩
  | none :: f, [], b :: bs, _, h2 => by simp [keep, BoundsOk] at h2
  | none :: f, some a :: r, b :: bs, h1, h2 => by
      have h1' : BoundsOk f bs := by simpa [BoundsOk] using h1
      have ⟨e, h2'⟩ : (b.lo ≤ a ∧ a ≤ b.hi) ∧ BoundsOk r (keep f bs) := by simpa [keep, BoundsOk] using h2
      simp only [scatter, BoundsOk]; exact ⟨e, boundsOk_scatter f r bs h1' h2'⟩
  | none :: f, none :: r, b :: bs, h1, h2 => by
      have h1' : BoundsOk f bs := by simpa [BoundsOk] using h1
      have h2' : BoundsOk r (keep f bs) := by simpa [keep, BoundsOk] using h2
      simp only [scatter, BoundsOk]; exact boundsOk_scatter f r bs h1' h2'

theorem keepRows_scatter {α} : ∀ (f r : List Bool) (l : List α), countFalse f ≤ r.length →
    keepRows r (keepRows f l) = keepRows (scatterRows f r) l
  | [], r, l, _ => by
      cases r with
      | nil => simp [keepRows, scatterRows]
      | cons o r => cases o <;> simp [keepRows, scatterRows]
  | true :: f, r, [], _ => by
      simp [keepRows, scatterRows]
  | true :: f, r, x :: l, h => by
      simp only [keepRows, scatterRows]; exact keepRows_scatter f r l (by simpa [countFalse] using h)
  | false :: f, [], _, h => by simp [countFalse] at h
  | false :: f, o :: r, [], _ => by cases o <;> simp [keepRows, scatterRows]
  | false :: f, o :: r, x :: l, h => by
      have ih := keepRows_scatter f r l (by simpa [countFalse] using h)
      cases o <;> simp [keepRows, scatterRows, ih]

theorem removed_scatter {α} : ∀ (f r : List Bool) (l : List α) (x : α), x ∈ removed (scatterRows f r) l →
    x ∈ removed f l ∨ x ∈ removed r (keepRows f l)
  | [], r, l, x, h => by simp [scatterRows, removed] at h
  | _ :: _, _, [], x, h => by
      rename_i b f r
      cases b <;> cases r <;> simp [scatterRows, removed] at h
  | true :: f, r, y :: l, x, h => by
      simp only [scatterRows, removed, List.mem_cons] at h
      rcases h with rfl | h
      · left; simp [removed]
      · rcases removed_scatter f r l x h with h' | h'
        · left; simp [removed, h']
        · right; simpa [keepRows] using h'
  | false :: f, [], y :: l, x, h => by
      simp only [scatterRows, removed] at h
      rcases removed_scatter f [] l x h with h' | h'
      · left; simpa [removed] using h'
      · simp [removed] at h'
  | false :: f, true :: r, y :: l, x, h => by
      simp only [scatterRows, removed, List.mem_cons] at h
      rcases h with rfl | h
      · right; simp [keepRows, removed]
      · rcases removed_scatter f r l x h with h' | h'
        · left; simpa [removed] using h'
        · right; simp [keepRows, removed, h']
  | false :: f, false :: r, y :: l, x, h => by
      simp only [scatterRows, removed] at h
      rcases removed_scatter f r l x h with h' | h'
      · left; simpa [removed] using h'
      · right; simpa [keepRows, removed] using h'

theorem keepRows_map {α β} (g : α → β) : ∀ (m : List Bool) (l : List α), keepRows m (l.map g) = (keepRows m l).map g
  | [], l => by cases l <;> simp [keepRows]
  | _ :: _, [] => by simp [keepRows]
  | true :: m, x :: l => by simp [keepRows, keepRows_map g m l]
  | false :: m, x :: l => by simp [keepRows, keepRows_map g m l]

theorem removed_map {α β} (g : α → β) : ∀ (m : List Bool) (l : List α), removed m (l.map g) = (removed m l).map g
  | [], l => by cases l <;> simp [removed]
  | _ :: _, [] => by simp [removed]
  | true :: m, x :: l => by simp [removed, removed_map g m l]
  | false :: m, x :: l => by simp [removed, removed_map g m l]

theorem keep_sub {α} : ∀ (m : List (Option Int)) (l : List α), ∀ x ∈ keep m l, x ∈ l
  | [], _, x, h => by simp [keep] at h
  | _ :: _, [], x, h => by rename_i o _; cases o <;> simp [keep] at h
  | some a :: m, y :: l, x, h => by
      have := keep_sub m l x (by simpa [keep] using h); simp [this]
  | none :: m, y :: l, x, h => by
      simp only [keep, List.mem_cons] at h
      rcases h with rfl | h
      · simp
      · have := keep_sub m l x h; simp [this]

/-- pointwise forcedness gives agreement with the mask -/
theorem agrees_of_get : ∀ (xs : List Int) (m : List (Option Int)), xs.length = m.length →
    (∀ (j : Nat) (a x : Int), m[j]? = some (some a) → xs[j]? = some x → x = a) → Agrees xs m
  | [], [], _, _ => by simp [Agrees]
  | [], _ :: _, h, _ => by simp at h
  | _ :: _, [], h, _ => by simp at h
  | x :: xs, some a :: m, hl, h => by
      simp only [Agrees]
      refine ⟨h 0 a x (by simp) (by simp), agrees_of_get xs m (by simpa using hl) ?_⟩
      intro j a' x' h1 h2; exact h (j+1) a' x' (by simpa using h1) (by simpa using h2)
  | x :: xs, none :: m, hl, h => by
      simp only [Agrees]
      refine agrees_of_get xs m (by simpa using hl) ?_
      intro j a' x' h1 h2; exact h (j+1) a' x' (by simpa using h1) (by simpa using h2)

theorem boundsOk_of_get : ∀ (m : List (Option Int)) (bs : List Bnd), m.length = bs.length →
    (∀ (j : Nat) (a : Int) (b : Bnd), m[j]? = some (some a) → bs[j]? = some b → b.lo ≤ a ∧ a ≤ b.hi) → BoundsOk m bs
  | [], [], _, _ => by simp [BoundsOk]
  | [], _ :: _, h, _ => by simp at h
  | _ :: _, [], h, _ => by simp at h
  | some a :: m, b :: bs, hl, h => by
      simp only [BoundsOk]
      refine ⟨h 0 a b (by simp) (by simp), boundsOk_of_get m bs (by simpa using hl) ?_⟩
      intro j a' b' h1 h2; exact h (j+1) a' b' (by simpa using h1) (by simpa using h2)
  | none :: m, b :: bs, hl, h => by
      simp only [BoundsOk]
      refine boundsOk_of_get m bs (by simpa using hl) ?_
      intro j a' b' h1 h2; exact h (j+1) a' b' (by simpa using h1) (by simpa using h2)

end Poly
end Puan
